//! C09: verifiable RSA encryption -- honest proofs verify, decrypt and round-trip.
//! Real `VerifiableRsaEncryption::{encrypt_with_proof, verify, decrypt, to_bytes, from_bytes}` on secp256k1 and
//! edwards25519 vs the extracted model (coq/Model/VEnc.v) whose oracles (sha256, curve group, RSA PKCS#1 v1.5 with
//! ChaCha20Rng::from_seed(seed)) are answered here with the real crates.
//! The items of this module are shared with c10.rs.
use crate::oracle::*;
use crate::util::*;
use curve25519_dalek::EdwardsPoint;
use ff::{Field, PrimeField};
use group::{Group, GroupEncoding};
use num_bigint_dig::BigUint;
use rand::{Rng, RngCore, SeedableRng};
use rand_chacha::ChaCha20Rng;
use rsa::traits::PublicKeyParts;
use rsa::{Pkcs1v15Encrypt, RsaPrivateKey, RsaPublicKey};
use sl_verifiable_enc::{RsaError, VerifiableRsaEncryption};
use std::collections::BTreeMap;
use std::io::Write;
use std::panic::{catch_unwind, AssertUnwindSafe};
use subtle::{ConditionallySelectable, ConstantTimeEq};

// ------------------------------------------------------------------------------------------------ curves
pub trait Cv: Group + GroupEncoding + ConstantTimeEq + 'static
where
    Self::Scalar: ConditionallySelectable,
{
    const NAME: &'static str;
    /// byte order of PrimeField::to_repr
    const BE: bool;
    const PSIZE: usize;
    fn order() -> BigUint;
}
impl Cv for k256::ProjectivePoint {
    const NAME: &'static str = "k";
    const BE: bool = true;
    const PSIZE: usize = 33;
    fn order() -> BigUint {
        q_k256()
    }
}
impl Cv for EdwardsPoint {
    const NAME: &'static str = "e";
    const BE: bool = false;
    const PSIZE: usize = 32;
    fn order() -> BigUint {
        BigUint::parse_bytes(b"1000000000000000000000000000000014DEF9DEA2F79CD65812631A5CF5D3ED", 16).unwrap()
    }
}

pub fn sc_of_big<G: Cv>(v: &BigUint) -> G::Scalar
where
    G::Scalar: ConditionallySelectable,
{
    let v = v % G::order();
    let b = v.to_bytes_be();
    let mut buf = vec![0u8; 32];
    buf[32 - b.len()..].copy_from_slice(&b);
    if !G::BE {
        buf.reverse();
    }
    let mut repr = <G::Scalar as PrimeField>::Repr::default();
    repr.as_mut().copy_from_slice(&buf);
    Option::<G::Scalar>::from(G::Scalar::from_repr(repr)).expect("canonical scalar")
}
pub fn big_of_sc<G: Cv>(s: &G::Scalar) -> BigUint
where
    G::Scalar: ConditionallySelectable,
{
    let r = s.to_repr();
    if G::BE {
        BigUint::from_bytes_be(r.as_ref())
    } else {
        BigUint::from_bytes_le(r.as_ref())
    }
}
pub fn hex_of_big(v: &BigUint) -> String {
    format!("{:x}", v)
}
pub fn big_of_hex(s: &str) -> BigUint {
    BigUint::parse_bytes(s.as_bytes(), 16).expect("hex int")
}
/// hex integer (`~` = negative) reduced into [0, order)
pub fn sc_of_hex<G: Cv>(s: &str) -> G::Scalar
where
    G::Scalar: ConditionallySelectable,
{
    let (neg, digits) = match s.strip_prefix('~') {
        Some(r) => (true, r),
        None => (false, s),
    };
    let q = G::order();
    let mut v = big_of_hex(digits) % &q;
    if neg && v != BigUint::from(0u8) {
        v = &q - v;
    }
    sc_of_big::<G>(&v)
}
pub fn pt_hex<G: Cv>(p: &G) -> String
where
    G::Scalar: ConditionallySelectable,
{
    hex::encode(p.to_bytes().as_ref())
}
pub fn pt_of_bytes<G: Cv>(b: &[u8]) -> Option<G>
where
    G::Scalar: ConditionallySelectable,
{
    let mut r = G::Repr::default();
    if r.as_ref().len() != b.len() {
        return None;
    }
    r.as_mut().copy_from_slice(b);
    Option::<G>::from(G::from_bytes(&r))
}

// ------------------------------------------------------------------------------------------------ RSA keys
pub struct Keys {
    pub map: BTreeMap<String, (RsaPrivateKey, RsaPublicKey)>,
}
impl Keys {
    /// keys generated once per run from the seed; `ids` are names like "a1024", "b1024", "a2048"
    pub fn generate(seed: u64, ids: &[&str]) -> Keys {
        let mut map = BTreeMap::new();
        for id in ids {
            let bits: usize = id[1..].parse().expect("key id = letter + bits");
            let mut r = rng(seed, &format!("venc-key-{id}"));
            let sk = RsaPrivateKey::new(&mut r, bits).expect("RSA key generation");
            let pk = sk.to_public_key();
            map.insert(id.to_string(), (sk, pk));
        }
        Keys { map }
    }
    pub fn sk(&self, id: &str) -> &RsaPrivateKey {
        &self.map[id].0
    }
    pub fn pk(&self, id: &str) -> &RsaPublicKey {
        &self.map[id].1
    }
}

// ------------------------------------------------------------------------------------------------ oracles of the model
/// Oracles served for the extracted model (besides the standard ones of oracle.rs).
pub fn venc_oracle(keys: &Keys, name: &str, a: &[&str]) -> Option<Vec<String>> {
    use curve25519_dalek::Scalar as ES;
    let ept = |s: &str| pt_of_bytes::<EdwardsPoint>(&unhx(s));
    Some(match name {
        "rsa_n" => vec![hex_of_big(keys.map.get(a[0])?.1.n())],
        // exactly as rsa_encrypt_with_label calls it
        "rsa_enc" => {
            let seed: [u8; 32] = unhx(a[0]).try_into().ok()?;
            let pk = &keys.map.get(a[1])?.1;
            let mut r = ChaCha20Rng::from_seed(seed);
            match pk.encrypt(&mut r, Pkcs1v15Encrypt, &unhx(a[2])) {
                Ok(c) => vec!["1".into(), hx(&c)],
                Err(_) => vec!["0".into()],
            }
        }
        "rsa_dec" => {
            let sk = &keys.map.get(a[0])?.0;
            match sk.decrypt(Pkcs1v15Encrypt, &unhx(a[1])) {
                Ok(m) => vec!["1".into(), hx(&m)],
                Err(_) => vec!["0".into()],
            }
        }
        // GroupEncoding::from_bytes of k256 (33 bytes; all-zero = identity); answer in the format of the standard oracles
        "kdec33" => match pt_of_bytes::<k256::ProjectivePoint>(&unhx(a[0])) {
            Some(p) => vec!["1".into(), point_hex(&p)],
            None => vec!["0".into()],
        },
        "eadd" => vec![pt_hex(&(ept(a[0])? + ept(a[1])?))],
        "eneg" => vec![pt_hex(&(-ept(a[0])?))],
        "esmul" => {
            let k: ES = sc_of_hex::<EdwardsPoint>(a[0]);
            vec![pt_hex(&(ept(a[1])? * k))]
        }
        "egen" => vec![pt_hex(&EdwardsPoint::generator())],
        "eid" => vec![pt_hex(&EdwardsPoint::identity())],
        "edec" => match ept(a[0]) {
            Some(p) => vec!["1".into(), pt_hex(&p)],
            None => vec!["0".into()],
        },
        _ => return None,
    })
}

pub struct Model<'a> {
    pub drv: Driver,
    pub keys: &'a Keys,
}
impl<'a> Model<'a> {
    pub fn new(keys: &'a Keys) -> Self {
        Model { drv: Driver::spawn(), keys }
    }
    pub fn call(&mut self, name: &str, args: &[String]) -> String {
        let keys = self.keys;
        let t0 = std::time::Instant::now();
        let mut t_or = std::time::Duration::ZERO;
        let q0 = self.drv.queries;
        let res = self.drv.run_with(name, args, &mut |o, a| {
            let t1 = std::time::Instant::now();
            let r = venc_oracle(keys, o, a);
            t_or += t1.elapsed();
            r
        });
        if std::env::var("VENC_TIMING").is_ok() {
            eprintln!("model {name}: {:?} total, {:?} in venc oracles, {} queries", t0.elapsed(), t_or, self.drv.queries - q0);
        }
        match res {
            Ok(v) => v.join(" "),
            Err(e) => format!("MODEL-ERROR {e}"),
        }
    }
    pub fn reset(&mut self) {
        self.call("c09.reset", &[]);
    }
    /// -> "V <handle>" | "E <code>" | "P <site>"
    pub fn from_bytes(&mut self, curve: &str, d: &[u8]) -> String {
        self.call("c09.frombytes", &[curve.into(), hx(d)])
    }
    pub fn to_bytes(&mut self, curve: &str, h: &str) -> String {
        self.call("c09.tobytes", &[curve.into(), h.into()])
    }
    pub fn verify(&mut self, curve: &str, h: &str, q: &str, pk: &str, label: &[u8]) -> String {
        self.call("c09.verify", &[curve.into(), h.into(), q.into(), pk.into(), hx(label)])
    }
    pub fn decrypt(&mut self, curve: &str, h: &str, q: &str, sk: &str, label: &[u8]) -> String {
        self.call("c09.decrypt", &[curve.into(), h.into(), q.into(), sk.into(), hx(label)])
    }
}
/// handle of a "V <handle>" answer
pub fn handle(ans: &str) -> Option<String> {
    ans.strip_prefix("V ").map(|s| s.to_string())
}
/// the model reports panic sites; only the class is comparable with the implementation
pub fn canon(ans: &str) -> String {
    if ans.starts_with("P ") {
        "P".into()
    } else {
        ans.to_string()
    }
}

// ------------------------------------------------------------------------------------------------ results of the real code
pub fn err_code(e: &RsaError) -> u32 {
    match e {
        RsaError::EncError => 1,
        RsaError::DecError => 2,
        RsaError::InvalidLabel => 3,
        RsaError::VerificationFailed => 4,
        RsaError::InvalidSizeParam => 5,
        RsaError::InvalidSecurityParam => 7,
        RsaError::SerdeError(m) => {
            10 + match m.as_str() {
                "Input data too short" => 0,
                "Inconsistent scalar size" => 1,
                "Inconsistent g_r size" => 2,
                "Security param must at least be 128" => 3,
                "Security param must at most be 256" => 4,
                "Inconsistent number of proofs, must be equal to the security parameter" => 5,
                "Inconsistent data length" => 6,
                "Unexpected end of data while reading proofs" => 7,
                "Unexpected end of data while reading scalars" => 8,
                "Invalid scalar" => 9,
                _ => 99,
            }
        }
    }
}
pub fn quiet_panics() {
    std::panic::set_hook(Box::new(|_| {}));
}
pub fn real_from_bytes<G: Cv>(d: &[u8]) -> (String, Option<VerifiableRsaEncryption<G>>)
where
    G::Scalar: ConditionallySelectable,
{
    match catch_unwind(AssertUnwindSafe(|| VerifiableRsaEncryption::<G>::from_bytes(d))) {
        Ok(Ok(p)) => ("V".into(), Some(p)),
        Ok(Err(e)) => (format!("E {}", err_code(&e)), None),
        Err(_) => ("P".into(), None),
    }
}
pub fn real_verify<G: Cv>(p: &VerifiableRsaEncryption<G>, q: &G, pk: &RsaPublicKey, label: &[u8]) -> String
where
    G::Scalar: ConditionallySelectable,
{
    match catch_unwind(AssertUnwindSafe(|| p.verify(q, pk, label))) {
        Ok(Ok(())) => "V".into(),
        Ok(Err(e)) => format!("E {}", err_code(&e)),
        Err(_) => "P".into(),
    }
}
pub fn real_decrypt<G: Cv>(p: &VerifiableRsaEncryption<G>, q: &G, sk: &RsaPrivateKey, label: &[u8]) -> String
where
    G::Scalar: ConditionallySelectable,
{
    match catch_unwind(AssertUnwindSafe(|| p.decrypt(q, sk, label))) {
        Ok(Ok(x)) => format!("V {}", hex_of_big(&big_of_sc::<G>(&x))),
        Ok(Err(e)) => format!("E {}", err_code(&e)),
        Err(_) => "P".into(),
    }
}
pub fn real_to_bytes<G: Cv>(p: &VerifiableRsaEncryption<G>) -> Option<Vec<u8>>
where
    G::Scalar: ConditionallySelectable,
{
    catch_unwind(AssertUnwindSafe(|| p.to_bytes())).ok()
}

// ------------------------------------------------------------------------------------------------ crafted rngs
/// ChaCha20 stream whose `fill_bytes` blocks are post-processed so that the scalars drawn from it have `zeros`
/// leading zero bytes in their `to_repr` (top bytes on secp256k1: 32-byte rejection-sampling blocks; lowest bytes on
/// edwards25519: 64-byte wide-reduction blocks, made canonical so that the reduction is the identity).
#[derive(Clone)]
pub struct CraftedRng {
    pub inner: ChaCha20Rng,
    /// k < 100: every 32/64-byte draw starts with k zero bytes; k >= 100: the (k-100)-th 32/64-byte draw is entirely zero
    /// (a slot nonce r = 0: its commitment is the identity point), the others are untouched
    pub zeros: usize,
    pub calls: usize,
}
impl RngCore for CraftedRng {
    fn next_u32(&mut self) -> u32 {
        self.inner.next_u32()
    }
    fn next_u64(&mut self) -> u64 {
        self.inner.next_u64()
    }
    fn fill_bytes(&mut self, dest: &mut [u8]) {
        self.inner.fill_bytes(dest);
        if self.zeros >= 100 {
            if dest.len() == 32 || dest.len() == 64 {
                if self.calls == self.zeros - 100 {
                    dest.iter_mut().for_each(|b| *b = 0);
                }
                self.calls += 1;
            }
            return;
        }
        if dest.len() == 32 {
            for b in dest.iter_mut().take(self.zeros) {
                *b = 0;
            }
        } else if dest.len() == 64 {
            for b in dest.iter_mut().skip(32) {
                *b = 0;
            }
            dest[31] &= 0x0f;
            for b in dest.iter_mut().take(self.zeros) {
                *b = 0;
            }
        }
    }
    fn try_fill_bytes(&mut self, dest: &mut [u8]) -> Result<(), rand::Error> {
        self.fill_bytes(dest);
        Ok(())
    }
}
impl rand::CryptoRng for CraftedRng {}

/// The random tape of encrypt_with_proof, read off a replica of the rng: (seed, nonces).
pub fn tape_of<G: Cv, R: RngCore + Clone>(r: &R, sp: usize) -> ([u8; 32], Vec<G::Scalar>)
where
    G::Scalar: ConditionallySelectable,
{
    let mut r2 = r.clone();
    let seed = r2.gen::<[u8; 32]>();
    let rs = (0..sp).map(|_| G::Scalar::random(&mut r2)).collect();
    (seed, rs)
}

// ------------------------------------------------------------------------------------------------ result file
#[derive(Default)]
pub struct Report {
    pub n_eval: u64,
    pub n_nontrivial: u64,
    pub kinds: BTreeMap<String, u64>,
    pub disagree: Vec<String>,
    pub oracle: Vec<String>,
    pub samples: Vec<String>,
}
impl Report {
    pub fn kind(&mut self, k: &str) {
        *self.kinds.entry(k.to_string()).or_default() += 1;
    }
    /// one comparison of an implementation result with the model's
    pub fn cmp(&mut self, what: &str, ctx: &str, real: &str, model: &str) {
        self.n_eval += 1;
        if real != canon(model) {
            let cut = |s: &str| if s.len() > 200 { format!("{}..({} chars)", &s[..200], s.len()) } else { s.to_string() };
            self.disagree.push(format!("{what}: impl [{}] model [{}] :: {ctx}", cut(real), cut(model)));
        }
    }
    pub fn write(&self, out: &str, queries: u64) {
        let mut f = std::fs::File::create(format!("{out}/result.txt")).unwrap();
        writeln!(f, "evaluations {}", self.n_eval).unwrap();
        writeln!(f, "mutations {}", self.n_nontrivial).unwrap();
        writeln!(f, "oracle_queries {queries}").unwrap();
        for (k, v) in &self.kinds {
            writeln!(f, "kind {k} {v}").unwrap();
        }
        for s in &self.samples {
            writeln!(f, "SAMPLE {s}").unwrap();
        }
        for d in &self.disagree {
            writeln!(f, "DISAGREE {d}").unwrap();
        }
        for d in &self.oracle {
            writeln!(f, "ORACLE {d}").unwrap();
        }
    }
}

// ------------------------------------------------------------------------------------------------ C09 cases
#[derive(Clone, Debug)]
pub struct Case {
    pub id: usize,
    pub key: String,
    pub xkind: usize,
    pub label_len: usize,
    pub sp: Option<usize>,
    /// 0 = plain ChaCha20; k > 0 = crafted rng with k leading zero repr bytes in every nonce
    pub zeros: usize,
}

/// scalar classes: 0, 1, q-1, leading zero byte, trailing zero byte, two leading zero bytes, random
pub fn scalar_of_kind<G: Cv>(kind: usize, r: &mut ChaCha20Rng) -> G::Scalar
where
    G::Scalar: ConditionallySelectable,
{
    let q = G::order();
    let mut b = [0u8; 32];
    r.fill_bytes(&mut b);
    let v = BigUint::from_bytes_be(&b) % &q;
    let v = match kind % 7 {
        0 => BigUint::from(0u8),
        1 => BigUint::from(1u8),
        2 => &q - BigUint::from(1u8),
        3 => v >> 8usize,                        // top byte zero (value < 2^248)
        4 => ((v >> 8usize) << 8usize) % &q,    // lowest byte zero
        5 => v >> 16usize,                       // two top bytes zero
        _ => v,
    };
    sc_of_big::<G>(&v)
}

fn run_case<G: Cv>(c: &Case, seed: u64, m: &mut Model, rep: &mut Report, log: &mut std::fs::File)
where
    G::Scalar: ConditionallySelectable,
{
    let cv = G::NAME;
    let mut r = rng(seed, &format!("c09-case-{cv}-{}", c.id));
    let x: G::Scalar = scalar_of_kind::<G>(c.xkind, &mut r);
    let mut label = vec![0u8; c.label_len];
    r.fill_bytes(&mut label);
    let q_point = G::generator() * x;
    let qh = pt_hex(&q_point);
    let (sk, pk) = (m.keys.sk(&c.key).clone(), m.keys.pk(&c.key).clone());
    let sp_n = c.sp.unwrap_or(128);
    let tape_len = if (128..=256).contains(&sp_n) { sp_n } else { 0 };
    let ctx = format!("curve={cv} case={} key={} x={} label={} sp={:?} zeros={}", c.id, c.key,
        hex_of_big(&big_of_sc::<G>(&x)), hx(&label), c.sp, c.zeros);
    // the real prover, and the tape it consumed
    let base = rng(seed, &format!("c09-rng-{cv}-{}", c.id));
    let (res, seed32, rs) = if c.zeros == 0 {
        let mut pr = base.clone();
        let (s, rs) = tape_of::<G, _>(&base, tape_len);
        (catch_unwind(AssertUnwindSafe(|| VerifiableRsaEncryption::<G>::encrypt_with_proof(&x, &pk, &label, c.sp, &mut pr))), s, rs)
    } else {
        let cr = CraftedRng { inner: base, zeros: c.zeros, calls: 0 };
        let mut pr = cr.clone();
        let (s, rs) = tape_of::<G, _>(&cr, tape_len);
        (catch_unwind(AssertUnwindSafe(|| VerifiableRsaEncryption::<G>::encrypt_with_proof(&x, &pk, &label, c.sp, &mut pr))), s, rs)
    };
    if c.zeros >= 100 {
        assert!(rs.iter().any(|s| bool::from(s.is_zero())), "crafted rng produced no zero nonce");
    } else if c.zeros > 0 {
        // the crafted rng must really produce short encodings
        for s in &rs {
            let repr = s.to_repr();
            assert!(repr.as_ref()[..c.zeros].iter().all(|b| *b == 0), "crafted rng produced a full-length nonce");
        }
    }
    let tape = if rs.is_empty() { "-".to_string() } else { rs.iter().map(|s| hex_of_big(&big_of_sc::<G>(s))).collect::<Vec<_>>().join(",") };
    let sp_arg = match c.sp { Some(s) => format!("{s:x}"), None => "none".into() };
    let mres = m.call("c09.encrypt", &[cv.into(), c.key.clone(), hex_of_big(&big_of_sc::<G>(&x)), hx(&label), sp_arg, hx(&seed32), tape]);
    let real = match &res {
        Ok(Ok(_)) => "V".to_string(),
        Ok(Err(e)) => format!("E {}", err_code(e)),
        Err(_) => "P".into(),
    };
    let mclass = if mres.starts_with("V ") { "V".to_string() } else { mres.clone() };
    rep.cmp("encrypt_with_proof", &ctx, &real, &mclass);
    rep.kind(&format!("{cv}-encrypt-{}", if real == "V" { "ok" } else { "refused" }));
    writeln!(log, "{ctx} -> encrypt {real}").unwrap();
    // implementation-only oracle: range of the security parameter
    let in_range = (128..=256).contains(&sp_n);
    if in_range != (real == "V") {
        rep.oracle.push(format!("encrypt_with_proof returned {real} for security_param {:?} :: {ctx}", c.sp));
    }
    let (p, h) = match (res, handle(&mres)) {
        (Ok(Ok(p)), Some(h)) => (p, h),
        _ => return,
    };
    rep.n_nontrivial += 1;
    // serialisation
    let bytes = real_to_bytes(&p).unwrap_or_default();
    let mb = m.to_bytes(cv, &h);
    rep.cmp("to_bytes", &ctx, &format!("V {}", hx(&bytes)), &mb);
    // verify / decrypt of the object itself
    let v = real_verify(&p, &q_point, &pk, &label);
    rep.cmp("verify", &ctx, &v, &m.verify(cv, &h, &qh, &c.key, &label));
    let d = real_decrypt(&p, &q_point, &sk, &label);
    rep.cmp("decrypt", &ctx, &d, &m.decrypt(cv, &h, &qh, &c.key, &label));
    let want = format!("V {}", hex_of_big(&big_of_sc::<G>(&x)));
    if v != "V" {
        rep.oracle.push(format!("honest proof rejected: verify = {v} :: {ctx}"));
    }
    if d != want {
        rep.oracle.push(format!("honest proof decrypts to [{d}], expected [{want}] :: {ctx}"));
    }
    // parse back
    let (fb, p2) = real_from_bytes::<G>(&bytes);
    let mfb = m.from_bytes(cv, &bytes);
    let mclass = if mfb.starts_with("V ") { "V".to_string() } else { mfb.clone() };
    rep.cmp("from_bytes", &ctx, &fb, &mclass);
    match (p2, handle(&mfb)) {
        (Some(p2), Some(h2)) => {
            let b2 = real_to_bytes(&p2).unwrap_or_default();
            rep.cmp("to_bytes(from_bytes)", &ctx, &format!("V {}", hx(&b2)), &m.to_bytes(cv, &h2));
            let v2 = real_verify(&p2, &q_point, &pk, &label);
            rep.cmp("verify(from_bytes)", &ctx, &v2, &m.verify(cv, &h2, &qh, &c.key, &label));
            let d2 = real_decrypt(&p2, &q_point, &sk, &label);
            rep.cmp("decrypt(from_bytes)", &ctx, &d2, &m.decrypt(cv, &h2, &qh, &c.key, &label));
            if b2 != bytes || v2 != "V" || d2 != want {
                rep.oracle.push(format!("round trip differs: reserialised equal={} verify={v2} decrypt=[{d2}] expected [{want}] :: {ctx}", b2 == bytes));
            }
        }
        (None, _) => rep.oracle.push(format!("from_bytes(to_bytes(p)) = {fb} :: {ctx}")),
        _ => {}
    }
    if rep.samples.len() < 6 {
        rep.samples.push(format!("{ctx} proof_bytes={} verify={v} decrypt={d}", bytes.len()));
    }
    m.reset();
}

/// small pure functions of the model compared on their own (BigUint codecs, mod_inverse)
fn run_small(seed: u64, m: &mut Model, rep: &mut Report, n: usize) {
    use num_bigint_dig::ModInverse;
    let mut r = rng(seed, "c09-small");
    for i in 0..n {
        let len = [0usize, 1, 2, 31, 32, 33, 64][i % 7];
        let mut b = vec![0u8; len];
        r.fill_bytes(&mut b);
        if i % 3 == 0 && len > 1 {
            b[0] = 0;
        }
        if i % 9 == 0 {
            b.iter_mut().for_each(|x| *x = 0);
        }
        let v = BigUint::from_bytes_be(&b);
        let real = format!("{} {}", hex_of_big(&v), hx(&v.to_bytes_be()));
        let model = m.call("c09.bu", &[hx(&b)]);
        rep.cmp("BigUint from_bytes_be/to_bytes_be", &hx(&b), &real, &model);
        rep.kind("biguint-codec");
        // mod_inverse against the modulus of a key (and small moduli with common factors)
        let n_big = if i % 4 == 0 { BigUint::from(3u32 * 5 * 7 * 11 * 13) << (i % 5) } else { m.keys.pk(m.keys.map.keys().next().unwrap()).n().clone() };
        let g = if i % 5 == 0 { BigUint::from((i % 40) as u32) } else { v.clone() };
        let real = match g.clone().mod_inverse(&n_big).and_then(|x| x.to_biguint()) {
            Some(x) => format!("1 {}", hex_of_big(&x)),
            None => "0".into(),
        };
        let model = m.call("c09.modinv", &[hex_of_big(&g), hex_of_big(&n_big)]);
        rep.cmp("mod_inverse", &format!("g={} n={}", hex_of_big(&g), hex_of_big(&n_big)), &real, &model);
        rep.kind("mod-inverse");
    }
}

pub fn run(kv: &Args) -> i32 {
    let seed = kv.u64("seed", 1);
    let out = kv.str("out", "/verif/build/run/C09");
    std::fs::create_dir_all(&out).unwrap();
    quiet_panics();
    let thorough = kv.thorough();
    let key_ids: Vec<&str> = if thorough { vec!["a1024", "a2048", "a3072", "a4096"] } else { vec!["a1024", "a2048"] };
    let keys = Keys::generate(seed, &key_ids);
    let mut m = Model::new(&keys);
    let mut rep = Report::default();
    let mut log = std::fs::File::create(format!("{out}/cases.txt")).unwrap();
    run_small(seed, &mut m, &mut rep, if thorough { 400 } else { 60 });

    // case table: x kinds x labels x security parameters x keys x rng kinds
    let labels = [0usize, 1, 32, 1024];
    let sps_ok = [None, Some(128), Some(129), Some(200), Some(256)];
    // refused parameters: the neighbours of the window, and values that fall INTO the window once narrowed to 8, 16, 32
    // ... bits (a range check made after an `as u16`-style conversion accepts them)
    let mut sps_bad: Vec<Option<usize>> = vec![Some(0usize), Some(1), Some(64), Some(127), Some(257), Some(258), Some(300),
        Some(511), Some(512), Some(65535), Some(65536), Some(usize::MAX), Some(usize::MAX - 127), Some(usize::MAX / 2 + 129)];
    for sh in [8usize, 16, 24, 32, 40, 48, 56, 63] {
        for off in [0usize, 127, 128, 129, 200, 255, 256, 257] {
            let v = (1usize << sh).wrapping_add(off);
            if !(128..=256).contains(&v) { sps_bad.push(Some(v)); }
        }
    }
    let n_ok = kv.u64("cases", if thorough { 110 } else { 12 }) as usize;   // per curve
    let mut cases = vec![];
    for i in 0..n_ok {
        cases.push(Case {
            id: i,
            key: key_ids[(i / 2) % key_ids.len()].to_string(),
            xkind: i % 7,
            label_len: labels[(i / 3) % 4],
            sp: sps_ok[if i < 7 { 0 } else { i % 5 }],
            // every third case uses a crafted rng: all nonces with 1 (or 2) leading zero repr bytes
            zeros: if i % 3 == 1 { 1 + (i / 3) % 2 } else { 0 },
        });
    }
    // a tape on which one slot nonce is 0 (slot 77 / the last slot), and the largest key of the tier with 256 slots
    let extra = cases.len();
    cases.push(Case { id: extra, key: key_ids[0].to_string(), xkind: 6, label_len: 1, sp: None, zeros: 100 + 78 });
    cases.push(Case { id: extra + 1, key: key_ids[0].to_string(), xkind: 3, label_len: 0, sp: Some(129), zeros: 100 + 128 });
    cases.push(Case { id: extra + 2, key: key_ids[key_ids.len() - 1].to_string(), xkind: 6, label_len: 32, sp: Some(256), zeros: 0 });
    let n_ok = cases.len();
    for (j, sp) in sps_bad.iter().enumerate() {
        cases.push(Case { id: n_ok + j, key: key_ids[0].to_string(), xkind: 6, label_len: 1, sp: *sp, zeros: 0 });
    }
    for c in &cases {
        run_case::<k256::ProjectivePoint>(c, seed, &mut m, &mut rep, &mut log);
        run_case::<EdwardsPoint>(c, seed, &mut m, &mut rep, &mut log);
    }
    rep.write(&out, m.drv.queries);
    0
}
