//! C14: discrete-log proof. Real DLogProof::{prove,verify} vs the extracted model (coq/Model/Dlog.v)
//! with real merlin/k256 behind the model's oracles.
use crate::oracle::*;
use crate::util::*;
use elliptic_curve::Field;
use k256::{ProjectivePoint, Scalar};
use merlin::Transcript;
use rand::{Rng, RngCore};
use sl_oblivious::utils::TranscriptProtocol;
use sl_oblivious::zkproofs::DLogProof;
use std::io::Write;

struct Ctx {
    sid: Vec<u8>,
    party: usize,
    action: Vec<u8>,
    label: &'static [u8],
}

fn transcript(c: &Ctx) -> Transcript {
    Transcript::new_dlog_proof(&c.sid, c.party, &c.action, c.label)
}

fn leak(v: &[u8]) -> &'static [u8] {
    Box::leak(v.to_vec().into_boxed_slice())
}

pub fn run(kv: &Args) -> i32 {
    let seed = kv.u64("seed", 1);
    let out = kv.str("out", "/verif/build/run/C14");
    std::fs::create_dir_all(&out).unwrap();
    let mut r = rng(seed, "c14");
    let n_cases = if kv.thorough() { 400 } else { 24 };
    let mut drv = Driver::spawn();
    let mut log = std::fs::File::create(format!("{out}/cases.txt")).unwrap();
    let mut n_eval = 0u64;
    let mut n_mut = 0u64;
    let mut disagreements: Vec<String> = vec![];
    let mut oracle_fail: Vec<String> = vec![];
    let mut kinds: std::collections::BTreeMap<String, u64> = Default::default();
    for case in 0..n_cases {
        // secrets: 0, 1, q-1, random
        let x = match case % 6 {
            0 => Scalar::ZERO,
            1 => Scalar::ONE,
            2 => -Scalar::ONE,
            _ => Scalar::random(&mut r),
        };
        let base = match (case / 6) % 4 {
            0 => ProjectivePoint::GENERATOR,
            3 if case % 6 == 3 => ProjectivePoint::IDENTITY,
            _ => ProjectivePoint::GENERATOR * Scalar::random(&mut r),
        };
        let mut sid = vec![0u8; [0usize, 1, 32, 100][(r.next_u32() % 4) as usize]];
        r.fill_bytes(&mut sid);
        let mut action = vec![0u8; (r.next_u32() % 12) as usize];
        r.fill_bytes(&mut action);
        let ctx = Ctx { sid, party: (r.next_u32() % 5) as usize, action, label: leak(format!("dlog-{}", case % 3).as_bytes()) };
        let y = base * x;
        // real proof, with a replica of the rng to recover the nonce
        let mut prng = rng(seed, &format!("c14-nonce-{case}"));
        let mut prng2 = rng(seed, &format!("c14-nonce-{case}"));
        let proof = match std::panic::catch_unwind(std::panic::AssertUnwindSafe(|| DLogProof::prove(&x, &base, &mut transcript(&ctx), &mut prng))) {
            Ok(p) => p,
            Err(_) => {
                n_eval += 1;
                oracle_fail.push(format!("case {case}: DLogProof::prove panicked (completeness, incl. x = 0 / identity points); x={} B={} sid={} party={} action={} label={}",
                    hex_of_scalar(&x), point_hex(&base), hx(&ctx.sid), ctx.party, hx(&ctx.action), hx(ctx.label)));
                continue;
            }
        };
        let nonce = Scalar::random(&mut prng2);
        let t = ProjectivePoint::from(proof.t);
        // model: context prefix computed by the model itself
        let pre = drv.run("c14.ctx", &[hx(&ctx.sid), format!("{:x}", ctx.party), hx(&ctx.action), hx(ctx.label)]).unwrap();
        let pre = pre[0].clone();
        let m = drv.run("c14.prove", &[hex_of_scalar(&x), point_hex(&base), pre.clone(), hex_of_scalar(&nonce)]);
        n_eval += 1;
        let impl_pf = (point_hex(&t), hex_of_scalar(&proof.s));
        writeln!(log, "prove x={} B={} sid={} party={} action={} label={} r={} -> t={} s={}", hex_of_scalar(&x), point_hex(&base),
            hx(&ctx.sid), ctx.party, hx(&ctx.action), hx(ctx.label), hex_of_scalar(&nonce), impl_pf.0, impl_pf.1).unwrap();
        match m {
            Ok(v) if v.len() == 2 && v[0] == impl_pf.0 && v[1] == impl_pf.1 => {}
            other => disagreements.push(format!("prove case {case}: impl {:?} model {:?}", impl_pf, other)),
        }
        // verification under the honest and mutated statements
        let one = Scalar::ONE;
        let mut muts: Vec<(String, ProjectivePoint, Scalar, ProjectivePoint, ProjectivePoint, Ctx)> = vec![];
        let mk = |c: &Ctx| Ctx { sid: c.sid.clone(), party: c.party, action: c.action.clone(), label: c.label };
        muts.push(("honest".into(), t, proof.s, y, base, mk(&ctx)));
        muts.push(("y+G".into(), t, proof.s, y + ProjectivePoint::GENERATOR, base, mk(&ctx)));
        muts.push(("y=2y".into(), t, proof.s, y + y, base, mk(&ctx)));
        muts.push(("B+G".into(), t, proof.s, y, base + ProjectivePoint::GENERATOR, mk(&ctx)));
        muts.push(("t+G".into(), t + ProjectivePoint::GENERATOR, proof.s, y, base, mk(&ctx)));
        muts.push(("t=-t".into(), -t, proof.s, y, base, mk(&ctx)));
        // degenerate replacements: the identity as commitment / statement, zero and one as response
        muts.push(("t=identity".into(), ProjectivePoint::IDENTITY, proof.s, y, base, mk(&ctx)));
        muts.push(("t=identity,s=0".into(), ProjectivePoint::IDENTITY, Scalar::ZERO, y, base, mk(&ctx)));
        muts.push(("s=0".into(), t, Scalar::ZERO, y, base, mk(&ctx)));
        muts.push(("y=identity".into(), t, proof.s, ProjectivePoint::IDENTITY, base, mk(&ctx)));
        muts.push(("t=y".into(), y, proof.s, y, base, mk(&ctx)));
        muts.push(("s+1".into(), t, proof.s + one, y, base, mk(&ctx)));
        muts.push(("s=-s".into(), t, -proof.s, y, base, mk(&ctx)));
        let mut c2 = mk(&ctx); c2.party += 1; muts.push(("party".into(), t, proof.s, y, base, c2));
        for (nm, d) in [("party+256", 256usize), ("party+65536", 65536), ("party+2^32", 1usize << 32), ("party+2^56", 1usize << 56)] {
            let mut c2 = mk(&ctx); c2.party += d; muts.push((nm.into(), t, proof.s, y, base, c2));
        }
        // coordinated sign changes (points absorbed or compared without their sign would let these through)
        muts.push(("neg-y,t,s".into(), -t, -proof.s, -y, base, mk(&ctx)));
        muts.push(("neg-y,t".into(), -t, proof.s, -y, base, mk(&ctx)));
        muts.push(("neg-B,s".into(), t, -proof.s, y, -base, mk(&ctx)));
        muts.push(("neg-B".into(), t, proof.s, y, -base, mk(&ctx)));
        muts.push(("neg-y".into(), t, proof.s, -y, base, mk(&ctx)));
        let mut c2 = mk(&ctx); c2.sid.push(0); muts.push(("sid-extended".into(), t, proof.s, y, base, c2));
        if !ctx.sid.is_empty() { let mut c2 = mk(&ctx); c2.sid.pop(); muts.push(("sid-truncated".into(), t, proof.s, y, base, c2)); }
        if !ctx.action.is_empty() { let mut c2 = mk(&ctx); c2.action.pop(); muts.push(("action-truncated".into(), t, proof.s, y, base, c2)); }
        { let mut c2 = mk(&ctx); let a = c2.action.clone(); c2.action = c2.sid.clone(); c2.sid = a; muts.push(("sid<->action".into(), t, proof.s, y, base, c2)); }
        let mut c2 = mk(&ctx); c2.action.push(7); muts.push(("action".into(), t, proof.s, y, base, c2));
        let mut c2 = mk(&ctx); c2.label = leak(b"other-label"); muts.push(("label".into(), t, proof.s, y, base, c2));
        if !ctx.sid.is_empty() { let mut c2 = mk(&ctx); c2.sid[0] ^= 1; muts.push(("sid-bit".into(), t, proof.s, y, base, c2)); }
        if ctx.sid.len() > 1 { let mut c2 = mk(&ctx); let l = c2.sid.len(); c2.sid[l - 1] ^= 0x80; muts.push(("sid-lastbit".into(), t, proof.s, y, base, c2)); }
        if !ctx.action.is_empty() { let mut c2 = mk(&ctx); let l = c2.action.len(); c2.action[l - 1] ^= 0x80; muts.push(("action-lastbit".into(), t, proof.s, y, base, c2)); }
        // single-bit mutations of the response
        let nbits = if kv.thorough() { 256 } else { 12 };
        for k in 0..nbits {
            let bit = if kv.thorough() { k } else { (r.next_u32() % 256) as usize };
            let mut b: [u8; 32] = proof.s.to_bytes().into();
            b[bit / 8] ^= 1 << (bit % 8);
            use elliptic_curve::PrimeField;
            if let Some(s2) = Option::<Scalar>::from(Scalar::from_repr(b.into())) {
                muts.push((format!("s-bit{bit}"), t, s2, y, base, mk(&ctx)));
            }
        }
        for (kind, t2, s2, y2, b2, c2) in muts {
            let pf = DLogProof { t: t2.to_affine(), s: s2 };
            let verdict = match std::panic::catch_unwind(std::panic::AssertUnwindSafe(|| pf.verify(&y2, &b2, &mut transcript(&c2)).unwrap_u8())) {
                Ok(v) => v,
                Err(_) => {
                    n_eval += 1;
                    oracle_fail.push(format!("case {case} {kind}: DLogProof::verify panicked; x={} B={} t={} s={} y={} sid={}",
                        hex_of_scalar(&x), point_hex(&base), point_hex(&t2), hex_of_scalar(&s2), point_hex(&y2), hx(&c2.sid)));
                    continue;
                }
            };
            let pre2 = drv.run("c14.ctx", &[hx(&c2.sid), format!("{:x}", c2.party), hx(&c2.action), hx(c2.label)]).unwrap()[0].clone();
            let mv = drv.run("c14.verify", &[point_hex(&t2), hex_of_scalar(&s2), point_hex(&y2), point_hex(&b2), pre2]);
            n_eval += 1;
            if kind != "honest" { n_mut += 1; }
            *kinds.entry(kind.split("-bit").next().unwrap().to_string()).or_default() += 1;
            let mv_s = match &mv { Ok(v) if v.len() == 1 => v[0].clone(), other => format!("{:?}", other) };
            if mv_s != verdict.to_string() {
                disagreements.push(format!("verify case {case} {kind}: impl {verdict} model {mv_s} x={} B={} t={} s={} y={}",
                    hex_of_scalar(&x), point_hex(&base), point_hex(&t2), hex_of_scalar(&s2), point_hex(&y2)));
            }
            // implementation-only oracle: the property itself
            // a "mutation" that changes nothing (e.g. session id and action swapped when both are empty) is the honest case
            let unchanged = t2 == t && s2 == proof.s && y2 == y && b2 == base && c2.sid == ctx.sid && c2.party == ctx.party
                && c2.action == ctx.action && c2.label == ctx.label;
            let expect = if kind == "honest" || unchanged { Some(1) }
                else if bool::from(x.is_zero()) || base == ProjectivePoint::IDENTITY { None }   // identity statement: equation does not involve the challenge
                else { Some(0) };
            if let Some(e) = expect {
                if verdict != e {
                    oracle_fail.push(format!("case {case} {kind}: verdict {verdict}, property demands {e}; x={} B={} sid={} party={} action={} label={} nonce={}",
                        hex_of_scalar(&x), point_hex(&base), hx(&ctx.sid), ctx.party, hx(&ctx.action), hx(ctx.label), hex_of_scalar(&nonce)));
                }
            }
        }
    }
    let mut f = std::fs::File::create(format!("{out}/result.txt")).unwrap();
    writeln!(f, "evaluations {n_eval}").unwrap();
    writeln!(f, "mutations {n_mut}").unwrap();
    writeln!(f, "oracle_queries {}", drv.queries).unwrap();
    for (k, v) in &kinds { writeln!(f, "kind {k} {v}").unwrap(); }
    for d in &disagreements { writeln!(f, "DISAGREE {d}").unwrap(); }
    for d in &oracle_fail { writeln!(f, "ORACLE {d}").unwrap(); }
    0
}
