//! C20: matrix inverse and Bareiss determinant over the secp256k1 scalar field.
//!
//! Runs the REAL `matrix_inverse::<Secp256k1>` (under catch_unwind) and the private determinant through the
//! hook `verif_determinant`.  Output (directory `out=`):
//!   cases.txt   one line per case for the Coq model:  kind rows matrix det-outcome inverse-outcome
//!   oracle.txt  implementation-only oracle (cofactor-expansion determinant; inverse * M == I) over the
//!               exhaustive families (all 3x3 over {0,1,2}, all 4x4 over {0,1}) and every emitted case
//!   order.txt   the group order as printed by k256 (compared with the model's q)
//! Matrix syntax: rows joined by '/', entries (64 hex digits, big endian) joined by ','; "_" = empty row,
//! "-" = empty matrix.  Outcomes: V:<value>, E:<code>, P:<site>.
use crate::util::*;
use elliptic_curve::{bigint::U256, ops::Reduce, Curve, Field, PrimeField};
use k256::{Scalar, Secp256k1};
use rand::{Rng, RngCore};
use sl_mpc_mate::matrix::{matrix_inverse, verif_determinant};
use std::io::Write;

type Mat = Vec<Vec<Scalar>>;

thread_local! {
    static LAST_PANIC: std::cell::RefCell<String> = std::cell::RefCell::new(String::new());
}

fn sc_hex(s: &Scalar) -> String {
    hex(&s.to_bytes()[..])
}

fn sc_unhex(s: &str) -> Scalar {
    let b = unhex(s);
    let mut a = [0u8; 32];
    a[32 - b.len()..].copy_from_slice(&b);
    <Scalar as Reduce<U256>>::reduce(U256::from_be_slice(&a))
}

fn mat_str(m: &Mat) -> String {
    if m.is_empty() {
        return "-".into();
    }
    m.iter()
        .map(|r| if r.is_empty() { "_".to_string() } else { r.iter().map(sc_hex).collect::<Vec<_>>().join(",") })
        .collect::<Vec<_>>()
        .join("/")
}

fn mat_parse(s: &str) -> Mat {
    if s == "-" {
        return vec![];
    }
    s.split('/')
        .map(|r| if r == "_" { vec![] } else { r.split(',').map(sc_unhex).collect() })
        .collect()
}

/// Panic message -> site number of coq/Model/Matrix.v
fn site_of(msg: &str) -> u32 {
    if msg.contains("Error while finding det for minor") {
        4
    } else if msg.contains("Error while finding det") {
        2
    } else if msg.contains("Option::unwrap()") || (msg.contains("assertion") && msg.contains("/subtle-")) {
        // CtOption::unwrap is `assert_eq!(is_some, 1)` inside the subtle crate
        3
    } else if msg.contains("overflow") {
        5
    } else if msg.contains("index out of bounds") || msg.contains("mid > len") || msg.contains("out of range") {
        1
    } else {
        0
    }
}

fn err_code(e: &str) -> u32 {
    if e.contains("Not a square matrix") {
        1
    } else if e.contains("Modular inverse does not exist") {
        2
    } else {
        0
    }
}

#[derive(Clone, PartialEq, Debug)]
enum Out<T> {
    V(T),
    E(u32),
    P(u32),
}

fn caught_site() -> u32 {
    LAST_PANIC.with(|c| site_of(&c.borrow()))
}

fn impl_det(m: &Mat, rows: usize) -> Out<Scalar> {
    let mm = m.clone();
    match std::panic::catch_unwind(move || verif_determinant::<Secp256k1>(mm, rows)) {
        Ok(Ok(d)) => Out::V(d),
        Ok(Err(e)) => Out::E(err_code(e)),
        Err(_) => Out::P(caught_site()),
    }
}

fn impl_inv(m: &Mat, rows: usize) -> Out<Mat> {
    let mm = m.clone();
    match std::panic::catch_unwind(move || matrix_inverse::<Secp256k1>(mm, rows)) {
        Ok(v) => Out::V(v),
        Err(_) => Out::P(caught_site()),
    }
}

// ---------------------------------------------------------------- independent reference (implementation-only oracle)
/// Determinant by cofactor (Laplace) expansion along the first row, with a column mask; no division.
fn det_ref(m: &Mat) -> Scalar {
    fn go(m: &Mat, row: usize, used: &mut Vec<bool>) -> Scalar {
        let n = m.len();
        if row == n {
            return Scalar::ONE;
        }
        let mut acc = Scalar::ZERO;
        let mut pos = 0usize; // position of column c among the unused columns
        for c in 0..n {
            if used[c] {
                continue;
            }
            let x = m[row][c];
            if !bool::from(x.is_zero()) {
                used[c] = true;
                let sub = go(m, row + 1, used);
                used[c] = false;
                let t = x * sub;
                if pos % 2 == 0 {
                    acc += t;
                } else {
                    acc -= t;
                }
            }
            pos += 1;
        }
        acc
    }
    let n = m.len();
    go(m, 0, &mut vec![false; n])
}

fn is_identity_product(a: &Mat, b: &Mat) -> bool {
    let n = b.len();
    if a.len() != n || a.iter().any(|r| r.len() != n) {
        return false;
    }
    for i in 0..n {
        for j in 0..n {
            let mut s = Scalar::ZERO;
            for k in 0..n {
                s += a[i][k] * b[k][j];
            }
            let want = if i == j { Scalar::ONE } else { Scalar::ZERO };
            if s != want {
                return false;
            }
        }
    }
    true
}

fn well_shaped(m: &Mat, rows: usize) -> bool {
    m.len() == rows && m.iter().all(|r| r.len() == rows)
}

/// The property itself, on the implementation only.  None = fine, Some(reason) = violated.
fn oracle(m: &Mat, rows: usize, d: &Out<Scalar>, inv: &Out<Mat>) -> Option<String> {
    if !well_shaped(m, rows) {
        return None; // malformed input: only model/implementation agreement is checked
    }
    let dr = det_ref(m);
    match d {
        Out::V(x) if *x == dr => {}
        Out::V(x) => return Some(format!("determinant {} != Leibniz determinant {}", sc_hex(x), sc_hex(&dr))),
        Out::E(c) => return Some(format!("determinant returned Err({}) for a square matrix (Leibniz det {})", c, sc_hex(&dr))),
        Out::P(s) => return Some(format!("determinant panicked (site {}) for a square matrix", s)),
    }
    if rows == 0 {
        return None;
    }
    let singular = bool::from(dr.is_zero());
    match inv {
        Out::V(i) if singular => Some(format!("inverse returned a value for a singular matrix: {}", mat_str(i))),
        Out::V(i) => {
            if is_identity_product(i, m) && is_identity_product(m, i) {
                None
            } else {
                Some(format!("inverse * M != I; inverse = {}", mat_str(i)))
            }
        }
        Out::P(3) if singular => None,
        Out::P(s) if singular => Some(format!("singular matrix: inverse panicked at site {} instead of the zero-determinant unwrap", s)),
        Out::P(s) => Some(format!("inverse panicked (site {}) on an invertible matrix", s)),
        Out::E(_) => None,
    }
}

// ---------------------------------------------------------------- generators
fn small(v: u64) -> Scalar {
    Scalar::from(v)
}

fn random_scalar<R: RngCore>(r: &mut R) -> Scalar {
    let mut b = [0u8; 32];
    r.fill_bytes(&mut b);
    <Scalar as Reduce<U256>>::reduce(U256::from_be_slice(&b))
}

/// entries among {0, 1, q-1, small, random}
fn entry<R: RngCore>(r: &mut R, zero_weight: u32) -> Scalar {
    let t = r.next_u32() % 100;
    if t < zero_weight {
        return Scalar::ZERO;
    }
    match r.next_u32() % 5 {
        0 => Scalar::ONE,
        1 => -Scalar::ONE,
        2 => small(2 + (r.next_u32() % 30) as u64),
        3 => -small(2 + (r.next_u32() % 30) as u64),
        _ => random_scalar(r),
    }
}

fn distinct_points<R: RngCore>(r: &mut R, n: usize) -> Vec<Scalar> {
    let mut xs: Vec<Scalar> = Vec::new();
    while xs.len() < n {
        let x = match r.next_u32() % 4 {
            0 => small(1 + (r.next_u32() % 12) as u64),
            1 => -small(1 + (r.next_u32() % 4) as u64),
            2 => Scalar::ZERO,
            _ => random_scalar(r),
        };
        if !xs.contains(&x) {
            xs.push(x);
        }
    }
    xs
}

fn gen_matrix<R: RngCore>(r: &mut R, kind: &str, n: usize) -> Mat {
    match kind {
        "dense" => (0..n).map(|_| (0..n).map(|_| entry(r, 5)).collect()).collect(),
        "sparse" => (0..n).map(|_| (0..n).map(|_| entry(r, 60)).collect()).collect(),
        "small" => (0..n).map(|_| (0..n).map(|_| small((r.next_u32() % 3) as u64)).collect()).collect(),
        "vandermonde" => {
            let xs = distinct_points(r, n);
            xs.iter().map(|x| (0..n).map(|j| x.pow_vartime([j as u64])).collect()).collect()
        }
        "birkhoff" => {
            // rows (x_i, r_i): r_i-th derivative of (1, x, x^2, ...) at x_i (sl_mpc_mate::math::birkhoff_coeffs shape)
            let xs = distinct_points(r, n);
            (0..n)
                .map(|i| {
                    let rank = if r.next_u32() % 3 == 0 { (r.next_u32() as usize) % n.max(1) } else { 0 };
                    (0..n)
                        .map(|j| {
                            if j < rank {
                                Scalar::ZERO
                            } else {
                                let mut f = Scalar::ONE;
                                for t in (j - rank + 1)..=j {
                                    f *= small(t as u64);
                                }
                                f * xs[i].pow_vartime([(j - rank) as u64])
                            }
                        })
                        .collect()
                })
                .collect()
        }
        "zerodiag" => (0..n)
            .map(|i| (0..n).map(|j| if i == j { Scalar::ZERO } else { entry(r, 10) }).collect())
            .collect(),
        "perm" => {
            // monomial matrix: a permutation with non-zero weights
            let mut p: Vec<usize> = (0..n).collect();
            for i in (1..n).rev() {
                let j = (r.next_u32() as usize) % (i + 1);
                p.swap(i, j);
            }
            (0..n)
                .map(|i| {
                    (0..n)
                        .map(|j| {
                            if p[i] == j {
                                let mut e = entry(r, 0);
                                if bool::from(e.is_zero()) {
                                    e = Scalar::ONE;
                                }
                                e
                            } else {
                                Scalar::ZERO
                            }
                        })
                        .collect()
                })
                .collect()
        }
        "singular" => {
            // a row that is a linear combination of the others (or a zero column for n = 1)
            let mut m: Mat = (0..n).map(|_| (0..n).map(|_| entry(r, 20)).collect()).collect();
            if n == 1 {
                m[0][0] = Scalar::ZERO;
            } else if r.next_u32() % 3 == 0 {
                let c = (r.next_u32() as usize) % n;
                for row in m.iter_mut() {
                    row[c] = Scalar::ZERO;
                }
            } else {
                let t = (r.next_u32() as usize) % n;
                let coef: Vec<Scalar> = (0..n).map(|_| entry(r, 30)).collect();
                for c in 0..n {
                    let mut s = Scalar::ZERO;
                    for i in 0..n {
                        if i != t {
                            s += coef[i] * m[i][c];
                        }
                    }
                    m[t][c] = s;
                }
            }
            m
        }
        "lateswap" => {
            // leading k x k minor singular for some k >= 2: the zero pivot only appears after elimination steps
            let mut m: Mat = (0..n).map(|_| (0..n).map(|_| entry(r, 5)).collect()).collect();
            if n >= 3 {
                let k = 2 + (r.next_u32() as usize) % (n - 2);
                // make row k-1 of the leading k x k block a multiple of row 0 (block singular, matrix generically not)
                let f = entry(r, 0);
                for c in 0..k {
                    m[k - 1][c] = f * m[0][c];
                }
            }
            m
        }
        _ => unreachable!(),
    }
}

const KINDS: [&str; 10] =
    ["dense", "sparse", "small", "vandermonde", "birkhoff", "zerodiag", "perm", "singular", "lateswap", "dense"];

fn from_digits(mut code: u32, base: u32, n: usize) -> Mat {
    let mut m = vec![vec![Scalar::ZERO; n]; n];
    for i in 0..n {
        for j in 0..n {
            m[i][j] = small((code % base) as u64);
            code /= base;
        }
    }
    m
}

fn out_det_str(d: &Out<Scalar>) -> String {
    match d {
        Out::V(x) => format!("V:{}", sc_hex(x)),
        Out::E(c) => format!("E:{}", c),
        Out::P(s) => format!("P:{}", s),
    }
}

fn out_inv_str(d: &Out<Mat>) -> String {
    match d {
        Out::V(x) => format!("V:{}", mat_str(x)),
        Out::E(c) => format!("E:{}", c),
        Out::P(s) => format!("P:{}", s),
    }
}

/// Structural class of a small exhaustive matrix (for stratified sampling).
fn class_of(m: &Mat, singular: bool) -> usize {
    let n = m.len();
    let zero = |x: &Scalar| bool::from(x.is_zero());
    let diag_zero = (0..n).all(|i| zero(&m[i][i]));
    let first_zero = zero(&m[0][0]);
    match (singular, diag_zero, first_zero) {
        (true, true, _) => 0,
        (true, false, true) => 1,
        (true, false, false) => 2,
        (false, true, _) => 3,
        (false, false, true) => 4,
        (false, false, false) => 5,
    }
}

pub fn run(kv: &Args) -> i32 {
    let seed = kv.u64("seed", 1);
    let out = kv.str("out", "/verif/build/run/C20");
    std::fs::create_dir_all(&out).unwrap();
    std::panic::set_hook(Box::new(|info| {
        let msg = if let Some(s) = info.payload().downcast_ref::<&str>() {
            s.to_string()
        } else if let Some(s) = info.payload().downcast_ref::<String>() {
            s.clone()
        } else {
            "?".to_string()
        };
        let file = info.location().map(|l| l.file().to_string()).unwrap_or_default();
        if std::env::var("C20_DEBUG").is_ok() {
            eprintln!("panic: {} @ {}", msg, file);
        }
        LAST_PANIC.with(|c| *c.borrow_mut() = format!("{} @{}", msg, file));
    }));
    {
        let mut f = std::fs::File::create(format!("{out}/order.txt")).unwrap();
        writeln!(f, "{:x}", Secp256k1::ORDER).unwrap();
    }
    let mut cases: Vec<(String, usize, Mat)> = Vec::new();
    let mut oracle_fail: Vec<String> = Vec::new();
    let mut oracle_n = 0u64;
    let mut class_counts = [[0u64; 6]; 2];

    if let Some(ms) = kv.get("matrix") {
        let m = mat_parse(ms);
        let rows = kv.u64("rows", m.len() as u64) as usize;
        cases.push(("replay".into(), rows, m));
    } else {
        // ---- exhaustive families: every matrix goes through the implementation-only oracle;
        //      a class-stratified seeded sample goes to the Coq model
        let mut r = rng(seed, "c20-sample");
        let quota3 = if kv.thorough() { 120 } else { 30 };
        let quota4 = if kv.thorough() { 100 } else { 14 };
        for (fam, (n, base, total, quota)) in [(3usize, 3u32, 19683u32, quota3), (4usize, 2u32, 65536u32, quota4)].iter().enumerate() {
            // reservoir sample per class
            let mut res: Vec<Vec<u32>> = vec![Vec::new(); 6];
            let mut seen = [0u64; 6];
            // the implementation and the oracle run in parallel; sampling below is sequential (deterministic)
            let nthreads = 12u32;
            let mut results: Vec<(u8, Option<String>)> = Vec::with_capacity(*total as usize);
            let chunks: Vec<Vec<(u8, Option<String>)>> = std::thread::scope(|sc| {
                let hs: Vec<_> = (0..nthreads)
                    .map(|t| {
                        let (n, base, total) = (*n, *base, *total);
                        sc.spawn(move || {
                            let lo = (total as u64 * t as u64 / nthreads as u64) as u32;
                            let hi = (total as u64 * (t as u64 + 1) / nthreads as u64) as u32;
                            (lo..hi)
                                .map(|code| {
                                    let m = from_digits(code, base, n);
                                    let d = impl_det(&m, n);
                                    let inv = impl_inv(&m, n);
                                    let why = oracle(&m, n, &d, &inv)
                                        .map(|w| format!("{} {} {}", n, mat_str(&m), w.replace(' ', "_")));
                                    let singular = bool::from(det_ref(&m).is_zero());
                                    (class_of(&m, singular) as u8, why)
                                })
                                .collect::<Vec<_>>()
                        })
                    })
                    .collect();
                hs.into_iter().map(|h| h.join().unwrap()).collect()
            });
            for ch in chunks {
                results.extend(ch);
            }
            for code in 0..*total {
                let (c, why) = &results[code as usize];
                let c = *c as usize;
                oracle_n += 1;
                if let Some(w) = why {
                    if oracle_fail.len() < 50 {
                        oracle_fail.push(w.clone());
                    }
                }
                class_counts[fam][c] += 1;
                seen[c] += 1;
                if res[c].len() < *quota {
                    res[c].push(code);
                } else {
                    let j = r.gen_range(0..seen[c]);
                    if (j as usize) < *quota {
                        res[c][j as usize] = code;
                    }
                }
            }
            for c in 0..6 {
                res[c].sort();
                for code in &res[c] {
                    cases.push((format!("exh{}x{}c{}", n, n, c), *n, from_digits(*code, *base, *n)));
                }
            }
        }
        // ---- seeded random matrices, n = 1..8
        let mut r = rng(seed, "c20-random");
        let mult = if kv.thorough() { 5 } else { 1 };
        for n in 1..=8usize {
            let per_kind = match n { 1 => 2 * mult, 2..=3 => 6 * mult, 4 => 4 * mult, 5..=6 => mult, _ => if kv.thorough() { 2 } else { 1 } };
            for kind in KINDS.iter() {
                for _ in 0..per_kind {
                    cases.push((kind.to_string(), n, gen_matrix(&mut r, kind, n)));
                }
            }
        }
        // ---- malformed shapes (model and implementation must agree on Err / panic)
        let s = |v: u64| small(v);
        cases.push(("shape".into(), 0, vec![]));
        cases.push(("shape".into(), 1, vec![]));
        cases.push(("shape".into(), 0, vec![vec![]]));
        cases.push(("shape".into(), 1, vec![vec![]]));
        cases.push(("shape".into(), 2, vec![vec![s(1), s(2)], vec![s(3)]]));
        cases.push(("shape".into(), 2, vec![vec![s(0), s(1)], vec![s(1)]]));
        cases.push(("shape".into(), 2, vec![vec![s(1), s(2), s(3)], vec![s(4), s(5), s(6)]]));
        cases.push(("shape".into(), 3, vec![vec![s(1), s(2)], vec![s(3), s(4)], vec![s(5), s(6)]]));
        cases.push(("shape".into(), 3, vec![vec![s(1), s(2)], vec![s(3), s(4)]]));
        cases.push(("shape".into(), 1, vec![vec![s(1), s(2)], vec![s(3), s(4)]]));
        cases.push(("shape".into(), 3, vec![vec![s(1), s(2), s(3)], vec![s(4), s(5)], vec![s(7), s(8), s(10)]]));
        cases.push(("shape".into(), 3, vec![vec![s(1), s(2), s(3)], vec![s(4), s(5), s(6), s(9)], vec![s(7), s(8), s(10)]]));
        cases.push(("shape".into(), 3, vec![vec![s(0), s(2), s(3)], vec![s(0), s(5), s(6)], vec![s(7)]]));
    }

    let mut f = std::fs::File::create(format!("{out}/cases.txt")).unwrap();
    for (kind, rows, m) in &cases {
        let d = impl_det(m, *rows);
        let inv = impl_inv(m, *rows);
        oracle_n += 1;
        if let Some(why) = oracle(m, *rows, &d, &inv) {
            if oracle_fail.len() < 50 {
                oracle_fail.push(format!("{} {} {}", rows, mat_str(m), why.replace(' ', "_")));
            }
        }
        writeln!(f, "{} {} {} {} {}", kind, rows, mat_str(m), out_det_str(&d), out_inv_str(&inv)).unwrap();
    }
    let mut f = std::fs::File::create(format!("{out}/oracle.txt")).unwrap();
    writeln!(f, "evaluations {}", oracle_n).unwrap();
    writeln!(f, "classes3 {}", class_counts[0].iter().map(|x| x.to_string()).collect::<Vec<_>>().join(",")).unwrap();
    writeln!(f, "classes4 {}", class_counts[1].iter().map(|x| x.to_string()).collect::<Vec<_>>().join(",")).unwrap();
    for l in &oracle_fail {
        writeln!(f, "FAIL {}", l).unwrap();
    }
    0
}
