//! C13: secret-sharing algebra of crates/sl-mpc-mate/src/math.rs.
//!
//! Runs the REAL functions (each under catch_unwind) on seeded cases and writes, to `out=`:
//!   cases.txt   one line per case: `kind <TAB> Coq term of type Corr.C13.case <TAB> weight <TAB> nontrivial(0/1)`
//!               (the term carries the inputs and the implementation's recorded result; scalars are
//!               `0x..` hex literals read by Coq in Z_scope)
//!   oracle.txt  `evaluations N` then one `FAIL kind description` line per failure of the
//!               implementation-only oracles (independent arithmetic in k256: Horner evaluation, falling
//!               factorials as scalar products, u128 factorials, Lagrange formula, interpolation identity)
//!   order.txt   the group order as k256 prints it (compared with the model's q)
//! Group-side results: the harness knows the discrete log of every point it creates; for a result point R of
//! the real code it computes the expected discrete log d independently and records `Some d` iff R == d*G
//! (checked here with k256), `None` otherwise.  The Coq side compares d with the model run in the
//! discrete-log instance.
use crate::util::*;
use elliptic_curve::{bigint::U256, ops::Reduce, Curve, Field, Group};
use k256::{NonZeroScalar, ProjectivePoint, Scalar, Secp256k1};
use rand::{Rng, RngCore};
use sl_mpc_mate::math::{
    birkhoff_coeffs, factorial_range, feldman_verify, polynomial_coeff_multipliers, GroupPolynomial, Polynomial,
};
use std::io::Write;
use std::panic::{catch_unwind, AssertUnwindSafe};
use std::sync::Mutex;

static LAST_PANIC: Mutex<String> = Mutex::new(String::new());

type Poly = Polynomial<ProjectivePoint>;
type GPoly = GroupPolynomial<ProjectivePoint>;

fn sc(s: &Scalar) -> String {
    let h = hex(&s.to_bytes()[..]);
    let t = h.trim_start_matches('0');
    if t.is_empty() {
        "0x0".into()
    } else {
        format!("0x{}", t)
    }
}

fn sc_list(l: &[Scalar]) -> String {
    format!("[{}]", l.iter().map(sc).collect::<Vec<_>>().join(";"))
}

fn small(v: u64) -> Scalar {
    Scalar::from(v)
}

fn qm1() -> Scalar {
    -Scalar::ONE
}

fn random_scalar<R: RngCore>(r: &mut R) -> Scalar {
    let mut b = [0u8; 32];
    r.fill_bytes(&mut b);
    <Scalar as Reduce<U256>>::reduce(U256::from_be_slice(&b))
}

fn random_nonzero<R: RngCore>(r: &mut R) -> Scalar {
    loop {
        let s = random_scalar(r);
        if !bool::from(s.is_zero()) {
            return s;
        }
    }
}

/// coefficient among {0, 1, q-1, random}
fn coeff<R: RngCore>(r: &mut R) -> Scalar {
    match r.gen_range(0..6) {
        0 => Scalar::ZERO,
        1 => Scalar::ONE,
        2 => qm1(),
        _ => random_scalar(r),
    }
}

fn nz(s: Scalar) -> NonZeroScalar {
    Option::<NonZeroScalar>::from(NonZeroScalar::new(s)).expect("non-zero scalar")
}

fn g() -> ProjectivePoint {
    ProjectivePoint::GENERATOR
}

/// Panic message -> panic site of the Coq models (Model/Matrix.v sites 1..5 for matrix_inverse; Model/Poly*.v:
/// 2 = slice start out of range in derivative_coeffs, 4 = swap_remove on an empty inverse). 0 = unknown.
fn site_birkhoff(msg: &str) -> u32 {
    if msg.contains("swap_remove") {
        4
    } else if msg.contains("Error while finding det for minor") {
        4
    } else if msg.contains("Error while finding det") {
        2
    } else if msg.contains("Option::unwrap()") || (msg.contains("assertion") && msg.contains("subtle")) {
        // determinant.invert().unwrap(): CtOption::unwrap is `assert_eq!(is_some, 1)` inside the subtle crate
        3
    } else if msg.contains("overflow") {
        5
    } else if msg.contains("index out of bounds") || msg.contains("mid > len") || msg.contains("out of range") {
        1
    } else {
        0
    }
}

fn caught<T>(f: impl FnOnce() -> T) -> Result<T, String> {
    LAST_PANIC.lock().unwrap().clear();
    match catch_unwind(AssertUnwindSafe(f)) {
        Ok(v) => Ok(v),
        Err(_) => Err(LAST_PANIC.lock().unwrap().clone()),
    }
}

// ------------------------------------------------------------------ independent references (oracles)
/// product over (s, e] in u128 (exact up to 34!), then reduced
fn ref_fact_range(s: usize, e: usize) -> Scalar {
    let mut p: u128 = 1;
    for k in (s + 1)..=e {
        p = p.checked_mul(k as u128).expect("u128 factorial range");
    }
    let mut b = [0u8; 32];
    b[16..].copy_from_slice(&p.to_be_bytes());
    <Scalar as Reduce<U256>>::reduce(U256::from_be_slice(&b))
}

/// Horner evaluation
fn ref_eval(f: &[Scalar], x: &Scalar) -> Scalar {
    let mut acc = Scalar::ZERO;
    for c in f.iter().rev() {
        acc = acc * x + c;
    }
    acc
}

/// coefficient j of the n-th formal derivative: f[j+n] * (j+1)(j+2)...(j+n), by repeated differentiation
fn ref_formal_derivative(f: &[Scalar], n: usize) -> Vec<Scalar> {
    let mut cur: Vec<Scalar> = f.to_vec();
    for _ in 0..n {
        if cur.is_empty() {
            break;
        }
        cur = cur.iter().enumerate().skip(1).map(|(i, c)| small(i as u64) * c).collect();
    }
    cur
}

fn ref_deriv_at(f: &[Scalar], n: usize, x: &Scalar) -> Scalar {
    ref_eval(&ref_formal_derivative(f, n), x)
}

fn ref_lagrange(xs: &[Scalar]) -> Option<Vec<Scalar>> {
    let mut out = vec![];
    for i in 0..xs.len() {
        let mut num = Scalar::ONE;
        let mut den = Scalar::ONE;
        for j in 0..xs.len() {
            if j != i {
                num *= xs[j];
                den *= xs[j] - xs[i];
            }
        }
        let inv = Option::<Scalar>::from(den.invert())?;
        out.push(num * inv);
    }
    Some(out)
}

// ------------------------------------------------------------------ case collection
struct Out {
    cases: Vec<(String, String, u32, bool)>,
    fails: Vec<String>,
    evals: u64,
}

impl Out {
    fn case(&mut self, kind: &str, term: String, weight: u32, nontrivial: bool) {
        self.cases.push((kind.to_string(), term, weight, nontrivial));
    }
    fn oracle(&mut self, ok: bool, kind: &str, what: impl FnOnce() -> String) {
        self.evals += 1;
        if !ok && self.fails.len() < 200 {
            self.fails.push(format!("FAIL {} {}", kind, what()));
        }
    }
}

fn opt_sc(o: &Option<Scalar>) -> String {
    match o {
        Some(s) => format!("(Some {})", sc(s)),
        None => "None".into(),
    }
}

/// all cases about one coefficient list `f` (used as scalar polynomial and, through d*G, as group polynomial)
fn poly_cases<R: RngCore>(o: &mut Out, r: &mut R, f: &[Scalar], heavy_points: usize) {
    let len = f.len();
    let fs = sc_list(f);
    let poly = Poly::new(f.to_vec());
    let nontriv = len >= 2 && f.iter().skip(1).any(|c| !bool::from(c.is_zero()));
    // ---- points
    let mut pts: Vec<(Scalar, bool)> = vec![
        (Scalar::ZERO, false),
        (Scalar::ONE, false),
        (small(2), false),
        (small(r.gen_range(3..65536u64)), false),
        (qm1(), true),
        (random_scalar(r), true),
    ];
    if heavy_points > 1 {
        pts.push((random_scalar(r), true));
    }
    // ---- Polynomial::evaluate_at, derivative_at
    let mut heavy_seen = 0;
    for (x, heavy) in pts.iter() {
        let w = (len * len / 2 + 1) as u32;
        match caught(|| poly.evaluate_at(x)) {
            Ok(v) => {
                o.oracle(v == ref_eval(f, x), "evaluate_at", || format!("f={} x={} impl={}", fs, sc(x), sc(&v)));
                o.case("eval", format!("CEval {} {} (Some {})", fs, sc(x), sc(&v)), if *heavy { w } else { 1 }, nontriv);
            }
            Err(_) => {
                o.oracle(false, "evaluate_at", || format!("panic f={} x={}", fs, sc(x)));
                o.case("eval", format!("CEval {} {} None", fs, sc(x)), 1, nontriv);
            }
        }
        // all derivative orders 0..=len and one beyond; for the expensive points only `heavy_points` of them
        if *heavy {
            heavy_seen += 1;
            if heavy_seen > heavy_points.max(1) {
                continue;
            }
        }
        for n in 0..=(len + 1) {
            let rem = len.saturating_sub(n);
            let w = if *heavy { (rem * rem / 2 + 1) as u32 } else { 1 };
            match caught(|| poly.derivative_at(n, x)) {
                Ok(v) => {
                    o.oracle(v == ref_deriv_at(f, n, x), "derivative_at", || {
                        format!("f={} n={} x={} impl={}", fs, n, sc(x), sc(&v))
                    });
                    o.case("deriv", format!("CDeriv {} {} {} (Some {})", fs, n, sc(x), sc(&v)), w, nontriv && n >= 1 && n < len);
                }
                Err(_) => {
                    o.oracle(false, "derivative_at", || format!("panic f={} n={} x={}", fs, n, sc(x)));
                    o.case("deriv", format!("CDeriv {} {} {} None", fs, n, sc(x)), 1, nontriv);
                }
            }
        }
    }
    // ---- Polynomial::commit: every point must be f_i * G
    match caught(|| poly.commit()) {
        Ok(c) => {
            let ok = c.coeffs.len() == len && c.coeffs.iter().zip(f).all(|(p, d)| *p == g() * d);
            o.oracle(ok, "commit", || format!("f={}", fs));
            let rec = if ok { format!("(Some {})", fs) } else { "None".into() };
            o.case("commit", format!("CCommit {} {}", fs, rec), len as u32 + 1, nontriv);
        }
        Err(_) => {
            o.oracle(false, "commit", || format!("panic f={}", fs));
            o.case("commit", format!("CCommit {} None", fs), 1, nontriv);
        }
    }
    // ---- GroupPolynomial over the points f_i * G (discrete logs f_i known to the harness)
    let gp = GPoly::new(f.iter().map(|d| g() * d).collect());
    for (x, heavy) in pts.iter().take(6) {
        let res = caught(|| gp.evaluate_at(x));
        let d = ref_eval(f, x);
        let rec = match &res {
            Ok(p) if *p == g() * d => Some(d),
            _ => None,
        };
        o.oracle(rec.is_some(), "group_evaluate_at", || format!("dlogs={} x={}", fs, sc(x)));
        o.case("geval", format!("CGEval {} {} {}", fs, sc(x), opt_sc(&rec)), if *heavy { 3 * len as u32 + 1 } else { 1 }, nontriv);
    }
    for n in 0..=(len + 1) {
        let res = caught(|| gp.derivative_coeffs(n).collect::<Vec<_>>());
        match res {
            Ok(pts_out) => {
                let d = ref_formal_derivative(f, n);
                let ok = n <= len && pts_out.len() == d.len() && pts_out.iter().zip(&d).all(|(p, e)| *p == g() * e);
                o.oracle(ok, "derivative_coeffs", || format!("dlogs={} n={}", fs, n));
                let rec = if ok { format!("(Val {})", sc_list(&d)) } else { "(Err 0)".into() };
                o.case("gderiv", format!("CGDeriv {} {} {}", fs, n, rec), 2 * (len.saturating_sub(n)) as u32 + 1, nontriv && n >= 1 && n < len);
            }
            Err(msg) => {
                // the slice self.coeffs[n..] panics exactly when n > len
                let site = if msg.contains("out of range") { 2 } else { 0 };
                o.oracle(n > len, "derivative_coeffs", || format!("panic dlogs={} n={} msg={}", fs, n, msg));
                o.case("gderiv", format!("CGDeriv {} {} (Panic {})", fs, n, site), 1, false);
            }
        }
    }
}

fn mult_cases<R: RngCore>(o: &mut Out, r: &mut R, thorough: bool) {
    let ns: &[usize] = if thorough { &[0, 1, 2, 3, 4, 5, 8, 13, 20, 21, 22, 23, 26] } else { &[0, 1, 2, 3, 5, 21, 22, 26] };
    for &n in ns {
        let mut xs = vec![small(2), random_nonzero(r)];
        if n < 21 || thorough {
            xs.push(Scalar::ONE);
            xs.push(qm1());
        }
        for x in xs {
            let mut nis = vec![0usize, 1, 2, n / 2, n.saturating_sub(1), n, n + 1];
            nis.sort();
            nis.dedup();
            for ni in nis {
                let xn = nz(x);
                match caught(|| polynomial_coeff_multipliers::<Secp256k1>(&xn, ni, n)) {
                    Ok(v) => {
                        let expect: Vec<Scalar> = (0..n)
                            .map(|idx| if idx < ni { Scalar::ZERO } else { ref_fact_range(idx - ni, idx) * x.pow_vartime([(idx - ni) as u64]) })
                            .collect();
                        o.oracle(v == expect, "polynomial_coeff_multipliers", || format!("x={} n_i={} n={}", sc(&x), ni, n));
                        let w = (n.saturating_sub(ni)).pow(2) as u32 / 2 + 1;
                        o.case("mult", format!("CMult {} {} {} (Some {})", sc(&x), ni, n, sc_list(&v)), w, n >= 2 && ni < n);
                    }
                    Err(_) => {
                        o.oracle(false, "polynomial_coeff_multipliers", || format!("panic x={} n_i={} n={}", sc(&x), ni, n));
                        o.case("mult", format!("CMult {} {} {} None", sc(&x), ni, n), 1, false);
                    }
                }
            }
        }
    }
}

fn params_str(p: &[(Scalar, usize)]) -> String {
    format!("[{}]", p.iter().map(|(x, r)| format!("({},{}%nat)", sc(x), r)).collect::<Vec<_>>().join(";"))
}

/// rank pattern satisfying the Polya condition (sorted ranks r_(j) <= j), shuffled
fn polya_ranks<R: RngCore>(r: &mut R, n: usize) -> Vec<usize> {
    let mut v: Vec<usize> = (0..n).map(|j| r.gen_range(0..=j)).collect();
    v.sort();
    // sorted ascending with v[j] <= j holds since each v[j] <= j before sorting and sorting keeps the bound
    for i in (1..n).rev() {
        let j = r.gen_range(0..=i);
        v.swap(i, j);
    }
    v
}

fn birkhoff_case<R: RngCore>(o: &mut Out, r: &mut R, params: &[(Scalar, usize)], tag: &str) {
    let n = params.len();
    let ps = params_str(params);
    let nzp: Vec<(NonZeroScalar, usize)> = params.iter().map(|(x, k)| (nz(*x), *k)).collect();
    let w = (n * n * n * n) as u32 * 8 + 1;
    match caught(|| birkhoff_coeffs::<Secp256k1>(&nzp)) {
        Ok(b) => {
            // oracle 1: interpolation identity sum_i b_i f^(r_i)(x_i) = f(0) for random f with n coefficients,
            //           derivatives by the independent reference and by the real derivative_at
            let mut ok = b.len() == n;
            if ok {
                for t in 0..3 {
                    let f: Vec<Scalar> = (0..n).map(|_| if t == 0 { coeff(r) } else { random_scalar(r) }).collect();
                    let s1: Scalar = (0..n).map(|i| b[i] * ref_deriv_at(&f, params[i].1, &params[i].0)).sum();
                    let poly = Poly::new(f.clone());
                    let s2: Scalar = (0..n).map(|i| b[i] * poly.derivative_at(params[i].1, &params[i].0)).sum();
                    // in the exponent: sum_i b_i * (derivative_coeffs(r_i) evaluated at x_i) = F_0
                    let gp = poly.commit();
                    let s3: ProjectivePoint = (0..n)
                        .map(|i| GPoly::new(gp.derivative_coeffs(params[i].1).collect()).evaluate_at(&params[i].0) * b[i])
                        .sum();
                    ok = ok && s1 == f[0] && s2 == f[0] && s3 == g() * f[0];
                }
            }
            o.oracle(ok, "birkhoff_interpolation", || format!("params={} b={}", ps, sc_list(&b)));
            // oracle 2: all ranks zero -> Lagrange coefficients
            if params.iter().all(|(_, k)| *k == 0) {
                let xs: Vec<Scalar> = params.iter().map(|(x, _)| *x).collect();
                let lag = ref_lagrange(&xs);
                o.oracle(lag.as_ref() == Some(&b), "birkhoff_lagrange", || format!("params={} b={}", ps, sc_list(&b)));
            }
            o.case(tag, format!("CBirk {} (Val {})", ps, sc_list(&b)), w, n >= 2);
        }
        Err(msg) => {
            // oracle: a panic is legitimate only when no interpolation exists, i.e. the matrix is singular:
            // checked independently for the all-zero-rank case (repeated nodes); other patterns are left to
            // the correspondence (the model panics on exactly the singular matrices, C20).
            if params.iter().all(|(_, k)| *k == 0) && n >= 1 {
                let xs: Vec<Scalar> = params.iter().map(|(x, _)| *x).collect();
                o.oracle(ref_lagrange(&xs).is_none(), "birkhoff_panic_on_regular_nodes", || format!("params={} msg={}", ps, msg));
            }
            o.case(tag, format!("CBirk {} (Panic {})", ps, site_birkhoff(&msg)), w / 4 + 1, false);
        }
    }
}

fn birkhoff_cases<R: RngCore>(o: &mut Out, r: &mut R, thorough: bool) {
    birkhoff_case(o, r, &[], "birk-empty");
    let nmax = if thorough { 7 } else { 6 };
    for n in 1..=nmax {
        // Lagrange: party ids 1..n, and random nodes
        let ids: Vec<(Scalar, usize)> = (1..=n).map(|i| (small(i as u64), 0)).collect();
        birkhoff_case(o, r, &ids, "birk-lagrange");
        let rnd: Vec<(Scalar, usize)> = (0..n).map(|_| (random_nonzero(r), 0)).collect();
        birkhoff_case(o, r, &rnd, "birk-lagrange");
        // Polya rank patterns, small and random nodes
        let reps = if thorough { 6 } else if n <= 4 { 3 } else { 1 };
        for k in 0..reps {
            let ranks = polya_ranks(r, n);
            let p: Vec<(Scalar, usize)> = ranks
                .iter()
                .enumerate()
                .map(|(i, rk)| (if k % 2 == 0 { small(i as u64 + 1) } else { random_nonzero(r) }, *rk))
                .collect();
            birkhoff_case(o, r, &p, "birk-polya");
        }
        // hierarchical threshold pattern: ranks 0,0,1,1,2,...
        if n >= 2 {
            let p: Vec<(Scalar, usize)> = (0..n).map(|i| (small(i as u64 + 1), i / 2)).collect();
            birkhoff_case(o, r, &p, "birk-polya");
        }
        // singular: no rank-0 row (first column zero); repeated node with equal rank
        let p: Vec<(Scalar, usize)> = (0..n).map(|i| (small(i as u64 + 1), 1)).collect();
        birkhoff_case(o, r, &p, "birk-singular");
        if n >= 2 && n <= 5 {
            let mut p: Vec<(Scalar, usize)> = (0..n).map(|i| (small(i as u64 + 1), 0)).collect();
            p[n - 1].0 = p[0].0;
            birkhoff_case(o, r, &p, "birk-singular");
        }
    }
}

fn feldman_case(o: &mut Out, dl: &[Scalar], x: Scalar, v: Scalar, h: Scalar, tag: &str) {
    // points dl_i * G, generator argument h * G
    let pts: Vec<ProjectivePoint> = dl.iter().map(|d| g() * d).collect();
    let gh = g() * h;
    let xn = nz(x);
    let fx = ref_eval(dl, &x);
    let expect = !bool::from(fx.is_zero()) && fx == v * h;
    match caught(|| feldman_verify::<Secp256k1>(pts.iter().cloned(), &xn, &v, &gh)) {
        Ok(b) => {
            o.oracle(b == expect, "feldman_verify", || {
                format!("{} dlogs={} x={} v={} g_dlog={} impl={} expected={}", tag, sc_list(dl), sc(&x), sc(&v), sc(&h), b, expect)
            });
            o.case(tag, format!("CFeld {} {} {} {} (Some {})", sc_list(dl), sc(&x), sc(&v), sc(&h), b), 3 * dl.len() as u32 + 1, dl.len() >= 2);
        }
        Err(_) => {
            o.oracle(false, "feldman_verify", || format!("panic {} dlogs={} x={} v={}", tag, sc_list(dl), sc(&x), sc(&v)));
            o.case(tag, format!("CFeld {} {} {} {} None", sc_list(dl), sc(&x), sc(&v), sc(&h)), 1, false);
        }
    }
}

fn feldman_cases<R: RngCore>(o: &mut Out, r: &mut R, thorough: bool) {
    let lens: &[usize] = if thorough { &[1, 2, 3, 4, 5, 8, 13, 21, 25] } else { &[1, 2, 3, 5, 8] };
    let one = Scalar::ONE;
    feldman_case(o, &[], small(3), Scalar::ZERO, one, "feld-empty");
    feldman_case(o, &[], small(3), small(7), one, "feld-empty");
    for &len in lens {
        let reps = if thorough { 4 } else { 2 };
        for k in 0..reps {
            let f: Vec<Scalar> = (0..len).map(|_| if k == 0 { random_scalar(r) } else { coeff(r) }).collect();
            // the committed polynomial goes through the real commit()
            let x = if k % 2 == 0 { small(r.gen_range(1..40u64)) } else { random_nonzero(r) };
            let fx = ref_eval(&f, &x);
            feldman_case(o, &f, x, fx, one, "feld-right");
            feldman_case(o, &f, x, fx + one, one, "feld-off-by-one");
            feldman_case(o, &f, x, fx - one, one, "feld-off-by-one");
            feldman_case(o, &f, x, Scalar::ZERO, one, "feld-zero");
            feldman_case(o, &f, x, -fx, one, "feld-negated");
            feldman_case(o, &f, x, random_scalar(r), one, "feld-random");
            // other base point h*G: accepted iff v*h = f(x)
            let h = random_nonzero(r);
            let hinv = Option::<Scalar>::from(h.invert()).unwrap();
            feldman_case(o, &f, x, fx * hinv, h, "feld-base-right");
            feldman_case(o, &f, x, fx, h, "feld-base-wrong");
            // polynomial vanishing at x: the share 0 must be rejected (identity rejection)
            let mut f0 = f.clone();
            f0[0] -= fx;
            feldman_case(o, &f0, x, Scalar::ZERO, one, "feld-vanishing");
            feldman_case(o, &f0, x, one, one, "feld-vanishing");
        }
    }
    // all-identity commitment
    feldman_case(o, &[Scalar::ZERO, Scalar::ZERO, Scalar::ZERO], small(5), Scalar::ZERO, one, "feld-vanishing");
}

pub fn run(kv: &Args) -> i32 {
    let seed = kv.u64("seed", 1);
    let thorough = kv.thorough();
    let out = kv.str("out", "/verif/build/run/C13");
    std::fs::create_dir_all(&out).unwrap();
    std::panic::set_hook(Box::new(|info| {
        *LAST_PANIC.lock().unwrap() = format!("{}", info);
    }));
    let mut o = Out { cases: vec![], fails: vec![], evals: 0 };

    // ---- factorial_range over all 0 <= s <= e <= 26 (table, boundary 20/21, product branch)
    for e in 0..=26usize {
        for s in 0..=e {
            match caught(|| factorial_range::<Scalar>(s, e)) {
                Ok(v) => {
                    o.oracle(v == ref_fact_range(s, e), "factorial_range", || format!("s={} e={} impl={}", s, e, sc(&v)));
                    o.case("fact", format!("CFact {} {} (Some {})", s, e, sc(&v)), 1, e > s);
                }
                Err(_) => {
                    o.oracle(false, "factorial_range", || format!("panic s={} e={}", s, e));
                    o.case("fact", format!("CFact {} {} None", s, e), 1, false);
                }
            }
        }
    }

    // ---- polynomials (scalar side, commitment, group side)
    let mut r = rng(seed, "c13-poly");
    let lens: Vec<usize> = if thorough { (0..=25).collect() } else { vec![0, 1, 2, 3, 4, 6, 9, 14, 20, 21, 22, 25] };
    for &len in &lens {
        let reps = if thorough { 4 } else { 1 };
        for k in 0..reps {
            let f: Vec<Scalar> = (0..len).map(|_| if k == 1 { random_scalar(&mut r) } else { coeff(&mut r) }).collect();
            poly_cases(&mut o, &mut r, &f, if thorough || len <= 14 { 2 } else { 1 });
        }
    }
    // fixed patterns at the table boundary: all coefficients q-1 / all 1 with 21 and 22 coefficients
    for &len in &[21usize, 22] {
        let f = vec![if len == 21 { qm1() } else { Scalar::ONE }; len];
        poly_cases(&mut o, &mut r, &f, if thorough { 1 } else { 0 });
    }

    let mut r = rng(seed, "c13-mult");
    mult_cases(&mut o, &mut r, thorough);
    let mut r = rng(seed, "c13-birkhoff");
    birkhoff_cases(&mut o, &mut r, thorough);
    let mut r = rng(seed, "c13-feldman");
    feldman_cases(&mut o, &mut r, thorough);

    // ---- implementation-only volume oracle (no Coq evaluation): random polynomials, all orders
    let mut r = rng(seed, "c13-oracle");
    let nvol = if thorough { 3000 } else { 300 };
    for _ in 0..nvol {
        let len = r.gen_range(0..=25usize);
        let f: Vec<Scalar> = (0..len).map(|_| coeff(&mut r)).collect();
        let x = match r.gen_range(0..5) {
            0 => small(r.gen_range(0..4u64)),
            1 => qm1(),
            _ => random_scalar(&mut r),
        };
        let poly = Poly::new(f.clone());
        let fs = sc_list(&f);
        let res = caught(|| {
            let mut bad: Option<String> = None;
            if poly.evaluate_at(&x) != ref_eval(&f, &x) {
                bad = Some(format!("evaluate_at f={} x={}", fs, sc(&x)));
            }
            for n in 0..=(len + 1) {
                if poly.derivative_at(n, &x) != ref_deriv_at(&f, n, &x) {
                    bad = Some(format!("derivative_at f={} n={} x={}", fs, n, sc(&x)));
                }
            }
            let gp = poly.commit();
            if gp.evaluate_at(&x) != g() * ref_eval(&f, &x) {
                bad = Some(format!("group evaluate_at f={} x={}", fs, sc(&x)));
            }
            if !bool::from(x.is_zero()) && len >= 1 {
                let fx = ref_eval(&f, &x);
                let acc = feldman_verify::<Secp256k1>(gp.coeffs.iter().cloned(), &nz(x), &fx, &g());
                if acc != !bool::from(fx.is_zero()) {
                    bad = Some(format!("feldman right share f={} x={}", fs, sc(&x)));
                }
                if feldman_verify::<Secp256k1>(gp.coeffs.iter().cloned(), &nz(x), &(fx + Scalar::ONE), &g()) {
                    bad = Some(format!("feldman accepts wrong share f={} x={}", fs, sc(&x)));
                }
            }
            bad
        });
        match res {
            Ok(None) => o.oracle(true, "volume", String::new),
            Ok(Some(b)) => o.oracle(false, "volume", || b),
            Err(m) => o.oracle(false, "volume", || format!("panic {} f={} x={}", m, fs, sc(&x))),
        }
    }

    let _ = std::panic::take_hook();
    let mut fh = std::fs::File::create(format!("{out}/cases.txt")).unwrap();
    for (kind, term, w, nt) in &o.cases {
        writeln!(fh, "{}\t{}\t{}\t{}", kind, term, w, if *nt { 1 } else { 0 }).unwrap();
    }
    let mut fh = std::fs::File::create(format!("{out}/oracle.txt")).unwrap();
    writeln!(fh, "evaluations {}", o.evals).unwrap();
    for l in &o.fails {
        writeln!(fh, "{}", l).unwrap();
    }
    let mut fh = std::fs::File::create(format!("{out}/order.txt")).unwrap();
    writeln!(fh, "0x{:x}", Secp256k1::ORDER).unwrap();
    0
}
