//! C05 harness module (not implemented yet).
use crate::util::*;

pub fn run(_kv: &Args) -> i32 {
    eprintln!("c05: not implemented");
    2
}
