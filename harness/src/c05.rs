//! C05: Endemic base OT. Real EndemicOTReceiver::{new,process} / EndemicOTSender::process vs the
//! extracted model (coq/Model/Endemic.v) with real merlin/k256 behind the model's oracles.
//!
//! Per tape ("case"): honest run; the two sides under different session ids; message 1 substituted
//! from another session; message 2 substituted from another session; messages with undecodable
//! (and with replaced but decodable) points.  Compared with the model: both messages byte for byte,
//! the 512 sender keys, the 256 receiver keys, the choice bits, the Ok/Err verdicts.
//! Implementation-only oracle: the property itself on the real outputs.
use crate::oracle::*;
use crate::util::*;
use elliptic_curve::group::GroupEncoding;
use elliptic_curve::{Field, Group};
use k256::{ProjectivePoint, Scalar};
use rand::{Rng, RngCore};
use sl_oblivious::endemic_ot::{EndemicOTMsg1, EndemicOTMsg2, EndemicOTReceiver, EndemicOTSender};
use sl_oblivious::verif_hooks::{receiver_choice_bits, receiver_output_parts, sender_output_keys};
use std::io::Write;
use std::panic::{catch_unwind, AssertUnwindSafe};

const N: usize = 256;
const PB: usize = 33;

/// receiver tape, replayed from the rng stream exactly as `EndemicOTReceiver::new` consumes it:
/// `rng.gen::<[u8;32]>()`, then 256 x `Scalar::random`, then (inside the loop) 256 x `ProjectivePoint::random`.
struct RecvTape {
    stream: String,
    bits: [u8; 32],
    tas: Vec<Scalar>,
    ros: Vec<ProjectivePoint>,
}

fn recv_tape(seed: u64, stream: &str) -> RecvTape {
    let mut r = tape_rng(seed, stream);
    let bits: [u8; 32] = r.gen();
    // both parties draw NonZeroScalar::random (a zero candidate is rejected and redrawn)
    let tas: Vec<Scalar> = (0..N).map(|_| *k256::NonZeroScalar::random(&mut r)).collect();
    let ros: Vec<ProjectivePoint> = (0..N).map(|_| ProjectivePoint::random(&mut r)).collect();
    RecvTape { stream: stream.to_string(), bits, tas, ros }
}

/// for about half of the session ids the caller's output buffer has been used before (deterministic junk): the message
/// written by `new` / `process` must not depend on what the buffer held
fn dirty_out(buf: &mut [u8], sid: &[u8]) {
    if sid.iter().fold(sid.len() as u8, |a, b| a ^ b) & 1 == 1 {
        let mut x = 0x9e37_79b9_7f4a_7c15u64 ^ (sid.len() as u64);
        for b in buf.iter_mut() {
            x ^= x << 13; x ^= x >> 7; x ^= x << 17;
            *b = x as u8;
        }
    }
}

/// the real receiver, round 1 (re-created whenever needed: `process` consumes it)
fn real_recv_new(seed: u64, tape: &RecvTape, sid: &[u8]) -> (EndemicOTReceiver, Vec<u8>) {
    let mut r = tape_rng(seed, &tape.stream);
    let mut msg1 = EndemicOTMsg1::default();
    dirty_out(bytemuck::bytes_of_mut(&mut msg1), sid);
    let recv = EndemicOTReceiver::new(sid, &mut msg1, &mut r);
    (recv, bytemuck::bytes_of(&msg1).to_vec())
}

/// sender tape: per instance t_b_0 then t_b_1
fn send_tape(seed: u64, stream: &str) -> Vec<Scalar> {
    let mut r = tape_rng(seed, stream);
    // the sender draws NonZeroScalar::random (a zero candidate is rejected and redrawn)
    (0..2 * N).map(|_| *k256::NonZeroScalar::random(&mut r)).collect()
}

struct SendRes {
    msg2: Vec<u8>,
    verdict: String,
    keys: Vec<[[u8; 32]; 2]>,
}

fn real_send(seed: u64, stream: &str, sid: &[u8], msg1: &[u8]) -> SendRes {
    let mut r = tape_rng(seed, stream);
    let mut m1 = EndemicOTMsg1::default();
    bytemuck::bytes_of_mut(&mut m1).copy_from_slice(msg1);
    let mut m2 = EndemicOTMsg2::default();
    dirty_out(bytemuck::bytes_of_mut(&mut m2), sid);
    let res = catch_unwind(AssertUnwindSafe(|| EndemicOTSender::process(sid, &m1, &mut m2, &mut r)));
    let msg2 = bytemuck::bytes_of(&m2).to_vec();
    match res {
        Ok(Ok(out)) => SendRes { msg2, verdict: "ok".into(), keys: sender_output_keys(&out) },
        Ok(Err(_)) => SendRes { msg2, verdict: "err1".into(), keys: vec![] },
        Err(_) => SendRes { msg2, verdict: "panic".into(), keys: vec![] },
    }
}

struct RecvRes {
    verdict: String,
    bits: Vec<u8>,
    keys: Vec<[u8; 32]>,
}

fn real_recv_process(seed: u64, tape: &RecvTape, sid: &[u8], msg2: &[u8]) -> RecvRes {
    let (recv, _) = real_recv_new(seed, tape, sid);
    let mut m2 = EndemicOTMsg2::default();
    bytemuck::bytes_of_mut(&mut m2).copy_from_slice(msg2);
    match catch_unwind(AssertUnwindSafe(|| recv.process(&m2))) {
        Ok(Ok(out)) => {
            let (b, k) = receiver_output_parts(&out);
            RecvRes { verdict: "ok".into(), bits: b.to_vec(), keys: k }
        }
        Ok(Err(_)) => RecvRes { verdict: "err1".into(), bits: vec![], keys: vec![] },
        Err(_) => RecvRes { verdict: "panic".into(), bits: vec![], keys: vec![] },
    }
}

fn items(bytes: &[u8], sz: usize) -> String {
    bytes.chunks(sz).map(hx).collect::<Vec<_>>().join(",")
}
fn scalars(l: &[Scalar]) -> String {
    l.iter().map(hex_of_scalar).collect::<Vec<_>>().join(",")
}
fn unitems(s: &str) -> Vec<u8> {
    if s == "-" { return vec![]; }
    s.split(',').flat_map(unhx).collect()
}
fn bit(bits: &[u8], idx: usize) -> bool {
    (bits[idx >> 3] >> (idx & 7)) & 1 == 1
}
fn first_diff(a: &[u8], b: &[u8], sz: usize) -> String {
    if a.len() != b.len() {
        return format!("lengths {} vs {}", a.len(), b.len());
    }
    for (i, (x, y)) in a.chunks(sz).zip(b.chunks(sz)).enumerate() {
        if x != y {
            return format!("item {i}: impl {} model {}", hx(x), hx(y));
        }
    }
    "equal".into()
}

/// `decode_point` of endemic_ot.rs: `ProjectivePoint::from_bytes` (GroupEncoding) on a 33-byte array.
/// NB: unlike SEC1 parsing, this accepts 33 zero bytes as the identity.
fn real_decode(b: &[u8]) -> Option<ProjectivePoint> {
    if b.len() != PB {
        return None;
    }
    let mut repr = <ProjectivePoint as GroupEncoding>::Repr::default();
    AsMut::<[u8]>::as_mut(&mut repr).copy_from_slice(b);
    Option::<ProjectivePoint>::from(ProjectivePoint::from_bytes(&repr))
}

/// The model's `g_dec` is instantiated with the real decoding function of the protocol messages
/// (overrides the SEC1-only `kdec` of oracle.rs, which rejects the zero-padded identity).
fn extra_oracle(name: &str, a: &[&str]) -> Option<Vec<String>> {
    match name {
        "kdec" => Some(match real_decode(&unhx(a[0])) {
            Some(p) => vec!["1".into(), point_hex(&p)],
            None => vec!["0".into()],
        }),
        _ => None,
    }
}

/// a 33-byte string that `decode_point` rejects
fn undecodable(r: &mut impl RngCore, pattern: u32) -> [u8; PB] {
    let mut b = [0u8; PB];
    match pattern % 6 {
        0 => { b[32] = 1; }                       // identity tag, not all zero
        1 => { r.fill_bytes(&mut b); b[0] = 4; }  // uncompressed tag
        2 => { b = [0xff; PB]; }
        3 => { b = [0xff; PB]; b[0] = 2; }        // x >= p
        4 => { r.fill_bytes(&mut b); b[0] = 0; }  // identity tag with garbage
        _ => loop {                               // valid tag, x not on the curve
            r.fill_bytes(&mut b);
            b[0] = 2 + (b[0] & 1);
            if real_decode(&b).is_none() { break; }
        },
    }
    assert!(real_decode(&b).is_none());
    b
}

struct Ctx {
    drv: Driver,
    seed: u64,
    n_eval: u64,
    n_mut: u64,
    max_chain: u64,
    fuel: u64,
    disagreements: Vec<String>,
    oracle_fail: Vec<String>,
    samples: Vec<String>,
    kinds: std::collections::BTreeMap<String, u64>,
    log: std::fs::File,
}

impl Ctx {
    fn chain(&mut self, s: &str) {
        let c: u64 = s.parse().unwrap_or(u64::MAX);
        if c > self.max_chain { self.max_chain = c; }
    }

    /// model of `EndemicOTReceiver::new`, compared with the real message 1 and choice bits
    fn check_recv_new(&mut self, tag: &str, tape: &RecvTape, sid: &[u8]) -> Vec<u8> {
        let (recv, msg1) = real_recv_new(self.seed, tape, sid);
        let hook_bits = receiver_choice_bits(&recv);
        if hook_bits != tape.bits {
            self.disagreements.push(format!("{tag} recv_new: replayed choice bits differ from the receiver state (rng replay order)"));
        }
        let ros: Vec<String> = tape.ros.iter().map(point_hex).collect();
        let m = self.drv.run_with("c05.recv_new", &[hx(sid), hx(&tape.bits), scalars(&tape.tas), ros.join(",")], &mut extra_oracle);
        self.n_eval += 1;
        match m {
            Ok(v) if v.len() == 3 => {
                let mm = unitems(&v[0]);
                if mm != msg1 {
                    self.disagreements.push(format!("{tag} recv_new msg1 sid={}: {}", hx(sid), first_diff(&msg1, &mm, PB)));
                }
                self.chain(&v[1]);
                self.fuel = v[2].parse().unwrap_or(0);
            }
            other => self.disagreements.push(format!("{tag} recv_new: model failed {:?}", other.map(|v| v.len()))),
        }
        writeln!(self.log, "{tag} recv_new sid={} stream={} bits={} msg1[0]={} msg1[511]={}", hx(sid), tape.stream, hx(&tape.bits),
            hx(&msg1[..PB]), hx(&msg1[511 * PB..])).unwrap();
        msg1
    }

    /// model of `EndemicOTSender::process`, compared with the real message 2, verdict and keys
    fn check_send(&mut self, tag: &str, stream: &str, sid: &[u8], msg1: &[u8]) -> SendRes {
        let real = real_send(self.seed, stream, sid, msg1);
        let tbs = send_tape(self.seed, stream);
        let m = self.drv.run_with("c05.send", &[hx(sid), items(msg1, PB), scalars(&tbs)], &mut extra_oracle);
        self.n_eval += 1;
        match m {
            Ok(v) if v.len() == 4 => {
                let mm = unitems(&v[0]);
                if mm != real.msg2 {
                    self.disagreements.push(format!("{tag} send msg2 sid={}: {}", hx(sid), first_diff(&real.msg2, &mm, PB)));
                }
                if v[1] != real.verdict {
                    self.disagreements.push(format!("{tag} send verdict sid={}: impl {} model {}", hx(sid), real.verdict, v[1]));
                } else if real.verdict == "ok" {
                    let ik: Vec<u8> = real.keys.iter().flat_map(|p| [p[0], p[1]].concat()).collect();
                    let mk = unitems(&v[2]);
                    if ik != mk {
                        self.disagreements.push(format!("{tag} send keys sid={}: {}", hx(sid), first_diff(&ik, &mk, 32)));
                    }
                }
                self.chain(&v[3]);
            }
            other => self.disagreements.push(format!("{tag} send: model failed {:?}", other.map(|v| v.len()))),
        }
        writeln!(self.log, "{tag} send sid={} stream={} verdict={} msg2[0]={} keys[0]={}", hx(sid), stream, real.verdict, hx(&real.msg2[..PB]),
            real.keys.first().map(|k| format!("{}/{}", hx(&k[0]), hx(&k[1]))).unwrap_or("-".into())).unwrap();
        real
    }

    /// model of `EndemicOTReceiver::process`
    fn check_recv_process(&mut self, tag: &str, tape: &RecvTape, sid: &[u8], msg2: &[u8]) -> RecvRes {
        let real = real_recv_process(self.seed, tape, sid, msg2);
        let m = self.drv.run_with("c05.recv_process", &[hx(&tape.bits), scalars(&tape.tas), items(msg2, PB)], &mut extra_oracle);
        self.n_eval += 1;
        match m {
            Ok(v) if v.len() == 3 => {
                if v[0] != real.verdict {
                    self.disagreements.push(format!("{tag} recv_process verdict: impl {} model {}", real.verdict, v[0]));
                } else if real.verdict == "ok" {
                    if unhx(&v[1]) != real.bits {
                        self.disagreements.push(format!("{tag} recv_process choice bits: impl {} model {}", hx(&real.bits), v[1]));
                    }
                    let ik: Vec<u8> = real.keys.iter().flat_map(|k| k.to_vec()).collect();
                    let mk = unitems(&v[2]);
                    if ik != mk {
                        self.disagreements.push(format!("{tag} recv_process keys: {}", first_diff(&ik, &mk, 32)));
                    }
                }
            }
            other => self.disagreements.push(format!("{tag} recv_process: model failed {:?}", other.map(|v| v.len()))),
        }
        writeln!(self.log, "{tag} recv_process sid={} verdict={} keys[0]={}", hx(sid), real.verdict,
            real.keys.first().map(|k| hx(k)).unwrap_or("-".into())).unwrap();
        real
    }

    fn kind(&mut self, k: &str) {
        *self.kinds.entry(k.to_string()).or_default() += 1;
    }

    /// property oracle, honest exchange: chosen key equal, other key different
    fn oracle_honest(&mut self, input: &str, s: &SendRes, r: &RecvRes) {
        if s.verdict != "ok" || r.verdict != "ok" {
            self.oracle_fail.push(format!("honest exchange does not complete: sender {} receiver {}; {input}", s.verdict, r.verdict));
            return;
        }
        for i in 0..N {
            let c = bit(&r.bits, i) as usize;
            if r.keys[i] != s.keys[i][c] {
                self.oracle_fail.push(format!("honest exchange: receiver key {i} differs from the sender's key for choice bit {c}; {input}"));
                return;
            }
            if r.keys[i] == s.keys[i][1 - c] {
                self.oracle_fail.push(format!("honest exchange: receiver key {i} equals the sender's OTHER key; {input}"));
                return;
            }
        }
    }

    /// property oracle, mismatched sessions / substituted message: no receiver key equals a sender key
    fn oracle_unrelated(&mut self, what: &str, input: &str, s: &SendRes, r: &RecvRes) {
        if s.verdict != "ok" || r.verdict != "ok" {
            return; // a rejected exchange delivers no keys at all
        }
        for i in 0..N {
            if r.keys[i] == s.keys[i][0] || r.keys[i] == s.keys[i][1] {
                self.oracle_fail.push(format!("{what}: receiver key {i} equals a sender key ({}); {input}", hx(&r.keys[i])));
                return;
            }
        }
    }
}

pub fn run(kv: &Args) -> i32 {
    let seed = kv.u64("seed", 1);
    let out = kv.str("out", "/verif/build/run/C05");
    std::fs::create_dir_all(&out).unwrap();
    let n_cases = kv.u64("cases", if kv.thorough() { 104 } else { 10 }) as usize;
    let mut cx = Ctx {
        drv: Driver::spawn(),
        seed,
        n_eval: 0,
        n_mut: 0,
        max_chain: 0,
        fuel: 0,
        disagreements: vec![],
        oracle_fail: vec![],
        samples: vec![],
        kinds: Default::default(),
        log: std::fs::File::create(format!("{out}/cases.txt")).unwrap(),
    };
    let mut r = rng(seed, "c05");
    for case in 0..n_cases {
        // ---------------------------------------------------------------- session ids
        let len = [0usize, 1, 32, 1000][case % 4];
        let mut sid = vec![0u8; len];
        r.fill_bytes(&mut sid);
        // the other session id: same length & random / one bit flipped / one byte appended / last byte dropped
        let sid2: Vec<u8> = match (case / 4 + case % 4) % 4 {
            0 if len > 0 => loop {
                let mut s = vec![0u8; len];
                r.fill_bytes(&mut s);
                if s != sid { break s; }
            },
            1 if len > 0 => {
                let mut s = sid.clone();
                let k = (r.next_u32() as usize) % (8 * len);
                s[k / 8] ^= 1 << (k % 8);
                s
            }
            3 if len > 0 => sid[..len - 1].to_vec(),
            _ => {
                let mut s = sid.clone();
                s.push(if case % 8 < 4 { 0 } else { r.next_u32() as u8 });
                s
            }
        };
        // degenerate random tapes: case 1 (mod 5): the receiver's choice bits are all zero and its first ephemeral scalars
        // are 0 (its first points are the hash-to-curve points themselves); case 2: all-one choice bits; case 3: the
        // sender's first ephemeral scalars are 0 (it sends the point at infinity, encoded as 33 zero bytes)
        //   case 4: the receiver's hash-to-curve partner point r_other of instances 0 and 3 is the point at infinity (a zero
        //   32-byte draw where ProjectivePoint::random takes its scalar), sent as 33 zero bytes;
        //   case 0 (from the sixth case on): the sender's two draws of instance 0 and of instance 255 are exactly the group
        //   order (not a canonical scalar: redrawn; a reduction instead of a rejection would give 0)
        // receiver stream layout: 32 choice-bit bytes drawn as 32 words (128 stream bytes), then 256 x 32-byte ephemeral
        // scalars from offset 128, then 256 x 32-byte scalars of ProjectivePoint::random (r_other) from offset 8320
        let (rt, st) = match case % 5 {
            1 => ("#zero128@0+zero64@128", ""),
            2 => ("#ones128@0", ""),
            3 => ("", "#zero64"),
            4 => ("#zero32@8320+zero32@8416", ""),
            _ if case >= 5 => ("", "#order2@0+order2@16384"),
            _ => ("", ""),
        };
        let t_r = recv_tape(seed, &format!("c05-recv-{case}{rt}"));
        let t_r2 = recv_tape(seed, &format!("c05-recv2-{case}"));
        let s_s = format!("c05-send-{case}{st}");
        let s_s2 = format!("c05-send2-{case}");
        let input = format!("seed={seed} case={case} sid={} sid2={} (tapes: util::rng(seed, c05-recv-{case} / c05-recv2-{case} / c05-send-{case} / c05-send2-{case}))",
            hx(&sid), hx(&sid2));

        // ---------------------------------------------------------------- A: honest exchange under sid
        let tag = format!("case {case} honest");
        let msg1 = cx.check_recv_new(&tag, &t_r, &sid);
        let sa = cx.check_send(&tag, &s_s, &sid, &msg1);
        let ra = cx.check_recv_process(&tag, &t_r, &sid, &sa.msg2);
        cx.oracle_honest(&input, &sa, &ra);
        cx.kind("honest");
        if cx.samples.len() < 3 && ra.verdict == "ok" {
            cx.samples.push(format!("case {case} honest sid_len={len}: choice bit0={} msg1[0][0]={} msg2[0][0]={} recv key0={} sender keys0={}/{}",
                bit(&ra.bits, 0) as u8, hx(&msg1[..PB]), hx(&sa.msg2[..PB]), hx(&ra.keys[0]), hx(&sa.keys[0][0]), hx(&sa.keys[0][1])));
        }

        // ---------------------------------------------------------------- B: the sender runs under another session id
        let tag = format!("case {case} sid-mismatch");
        let sb = cx.check_send(&tag, &s_s, &sid2, &msg1);
        let rb = cx.check_recv_process(&tag, &t_r, &sid, &sb.msg2);
        cx.oracle_unrelated("sender and receiver under different session ids", &input, &sb, &rb);
        cx.kind("sid-mismatch");
        cx.n_mut += 1;
        if cx.samples.len() < 4 && rb.verdict == "ok" {
            cx.samples.push(format!("case {case} sid-mismatch (sid2 len {}): recv key0={} sender keys0={}/{}", sid2.len(), hx(&rb.keys[0]),
                hx(&sb.keys[0][0]), hx(&sb.keys[0][1])));
        }

        // ---------------------------------------------------------------- C: message 1 recorded in session sid2 is given to the sender of session sid
        let tag = format!("case {case} msg1-substituted");
        let msg1_other = cx.check_recv_new(&tag, &t_r2, &sid2);
        let sc = cx.check_send(&tag, &s_s, &sid, &msg1_other);
        let rc = cx.check_recv_process(&tag, &t_r, &sid, &sc.msg2);
        cx.oracle_unrelated("message 1 substituted from another session", &input, &sc, &rc);
        cx.kind("msg1-substituted");
        cx.n_mut += 1;

        // ---------------------------------------------------------------- D: message 2 recorded in session sid2 is given to the receiver of session sid
        let tag = format!("case {case} msg2-substituted");
        let sd = cx.check_send(&tag, &s_s2, &sid2, &msg1_other);
        let rd = cx.check_recv_process(&tag, &t_r, &sid, &sd.msg2);
        // the keys the receiver derives must match neither the keys of its own session's sender (run A) ...
        cx.oracle_unrelated("message 2 substituted from another session (vs own session's sender)", &input, &sa, &rd);
        // ... nor those of the sender whose message it was
        cx.oracle_unrelated("message 2 substituted from another session (vs the other session's sender)", &input, &sd, &rd);
        cx.kind("msg2-substituted");
        cx.n_mut += 1;

        // ---------------------------------------------------------------- E: undecodable points in message 1
        let n_e = if kv.thorough() { 3 } else { 2 };
        for v in 0..n_e {
            let sel = case * n_e + v;
            let positions: Vec<usize> = match sel % 4 {
                0 => vec![0],
                1 => vec![255],
                2 => vec![(r.next_u32() as usize) % N],
                _ => (0..1 + (r.next_u32() as usize) % 5).map(|_| (r.next_u32() as usize) % N).collect(),
            };
            let mut m = msg1.clone();
            let mut desc = vec![];
            for p in &positions {
                let side = (sel / 4 + desc.len()) % 2; // both sides at every kind of position
                let pat = r.next_u32();
                let b = undecodable(&mut r, pat);
                m[(2 * p + side) * PB..(2 * p + side + 1) * PB].copy_from_slice(&b);
                desc.push(format!("{p}.{side}={}", hx(&b)));
            }
            let tag = format!("case {case} msg1-undecodable[{}]", desc.join(" "));
            let se = cx.check_send(&tag, &s_s, &sid, &m);
            if se.verdict != "err1" {
                cx.oracle_fail.push(format!("sender accepts message 1 with undecodable points ({}): verdict {}; {input}", desc.join(" "), se.verdict));
            }
            cx.kind("msg1-undecodable");
            cx.n_mut += 1;
        }
        // ---------------------------------------------------------------- F: undecodable points in message 2
        for v in 0..n_e + 1 {
            let sel = case * (n_e + 1) + v;
            let positions: Vec<usize> = match sel % 4 {
                0 => vec![0],
                1 => vec![255],
                2 => vec![(r.next_u32() as usize) % N],
                _ => (0..1 + (r.next_u32() as usize) % 5).map(|_| (r.next_u32() as usize) % N).collect(),
            };
            let mut m = sa.msg2.clone();
            let mut desc = vec![];
            let mut needed = false;
            for p in &positions {
                // alternate between the chosen side (needed by the receiver) and the side it never decodes
                let chosen = bit(&t_r.bits, *p) as usize;
                let side = if (sel + desc.len()) % 3 == 2 { 1 - chosen } else { chosen };
                needed |= side == chosen;
                let pat = r.next_u32();
                let b = undecodable(&mut r, pat);
                m[(2 * p + side) * PB..(2 * p + side + 1) * PB].copy_from_slice(&b);
                desc.push(format!("{p}.{side}={}", hx(&b)));
            }
            let tag = format!("case {case} msg2-undecodable[{}]", desc.join(" "));
            let rf = cx.check_recv_process(&tag, &t_r, &sid, &m);
            let expect = if needed { "err1" } else { "ok" };
            if rf.verdict != expect {
                cx.oracle_fail.push(format!("receiver verdict {} on message 2 with undecodable points ({}), expected {expect}; {input}", rf.verdict, desc.join(" ")));
            }
            if !needed && rf.verdict == "ok" && rf.keys != ra.keys {
                cx.oracle_fail.push(format!("receiver keys depend on the side it did not choose ({}); {input}", desc.join(" ")));
            }
            cx.kind(if needed { "msg2-undecodable-chosen" } else { "msg2-undecodable-unchosen" });
            cx.n_mut += 1;
        }
        // ---------------------------------------------------------------- G: a point of message 1 replaced by another valid point
        {
            let p = [0usize, 255, (r.next_u32() as usize) % N][case % 3];
            let side = (r.next_u32() % 2) as usize;
            let pt = match case % 4 {
                0 => ProjectivePoint::GENERATOR,
                1 => ProjectivePoint::IDENTITY, // 33 zero bytes: accepted by decode_point
                _ => ProjectivePoint::random(&mut r),
            };
            let mut m = msg1.clone();
            m[(2 * p + side) * PB..(2 * p + side + 1) * PB].copy_from_slice(&pt.to_affine().to_bytes());
            let tag = format!("case {case} msg1-point-replaced[{p}.{side}]");
            let sg = cx.check_send(&tag, &s_s, &sid, &m);
            let rg = cx.check_recv_process(&tag, &t_r, &sid, &sg.msg2);
            // (a replacement that leaves the bytes as they were -- the degenerate tapes already put the identity there -- is
            // the honest exchange, not a substitution)
            if m != msg1 && sg.verdict == "ok" && rg.verdict == "ok" {
                // untouched instances still deliver the chosen key; the touched one delivers neither
                for i in 0..N {
                    let c = bit(&rg.bits, i) as usize;
                    let same = rg.keys[i] == sg.keys[i][c];
                    if (i != p && !same) || (i == p && (same || rg.keys[i] == sg.keys[i][1 - c])) {
                        cx.oracle_fail.push(format!("message 1 with the point {p}.{side} replaced by {}: instance {i} chosen-key-equal={same}; {input}", point_hex(&pt)));
                        break;
                    }
                }
            }
            cx.kind("msg1-point-replaced");
            cx.n_mut += 1;
        }
    }
    if cx.fuel == 0 || cx.max_chain >= cx.fuel {
        cx.disagreements.push(format!("hash-to-curve retry chain of {} challenges reaches the model's fuel {}", cx.max_chain, cx.fuel));
    }
    let mut f = std::fs::File::create(format!("{out}/result.txt")).unwrap();
    writeln!(f, "evaluations {}", cx.n_eval).unwrap();
    writeln!(f, "mutations {}", cx.n_mut).unwrap();
    writeln!(f, "oracle_queries {}", cx.drv.queries).unwrap();
    writeln!(f, "max_retry_chain {}", cx.max_chain).unwrap();
    writeln!(f, "tapes {}", n_cases).unwrap();
    for (k, v) in &cx.kinds { writeln!(f, "kind {k} {v}").unwrap(); }
    for s in &cx.samples { writeln!(f, "SAMPLE {s}").unwrap(); }
    for d in &cx.disagreements { writeln!(f, "DISAGREE {d}").unwrap(); }
    for d in &cx.oracle_fail { writeln!(f, "ORACLE {d}").unwrap(); }
    0
}
