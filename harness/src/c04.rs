//! C04: the OT-extension sender catches a deviating receiver.
//! The same corrupted / adversarial first-round messages are fed to the REAL SoftSpokenOTSender::process and to
//! the extracted model sender (coq/Model/SoftSpoken.v); verdicts (and outputs on acceptance) must match.
//! The calibrated selective-failure adversary is implemented here (c03::adversary, with the field
//! multiplication hook) and also obtained from the model's `adv_receiver`; the two messages must be byte-equal.
use crate::c03::*;
use crate::oracle::*;
use crate::util::*;
use rand::RngCore;
use sl_oblivious::soft_spoken::{ReceiverOTSeed, SenderOTSeed};
use std::io::Write;
use std::sync::atomic::{AtomicUsize, Ordering};
use std::sync::Mutex;

struct Inst {
    name: String,
    sid: Vec<u8>,
    sseed: SenderOTSeed,
    rseed: ReceiverOTSeed,
    choices: [u8; LB],
    tape: [u8; SB],
    honest: Vec<u8>,
}

#[derive(Clone, Debug, PartialEq)]
enum Expect {
    /// must be Err(AbortProtocolAndBanReceiver), no output
    Reject,
    /// must be accepted
    Accept,
    /// must be accepted with exactly the outputs of the honest message
    AcceptHonest,
    /// no demand from the property (degenerate zero hash image); model and implementation must still agree
    Any,
}

struct Job {
    inst: usize,
    kind: String,
    detail: String,
    msg: Vec<u8>,
    expect: Expect,
    /// (e, g): ask the model's adv_receiver for the same deviation and compare the message bytes
    adv: Option<(Vec<[u8; LPB]>, Vec<u8>)>,
    model: bool,
}

struct JobResult {
    real: Verdict,
    model: Option<Result<Verdict, String>>,
    model_adv: Option<Result<Vec<u8>, String>>,
}

fn make_inst(name: &str, sid: Vec<u8>, sseed: SenderOTSeed, rseed: ReceiverOTSeed, choices: [u8; LB], tape: [u8; SB]) -> Inst {
    let honest = real_recv(&sid, &sseed, &vec![0u8; MSG_BYTES], &choices, &tape, 0).expect("receiver panicked").0;
    Inst { name: name.into(), sid, sseed, rseed, choices, tape, honest }
}

fn flip(msg: &[u8], bitpos: usize) -> Vec<u8> {
    let mut m = msg.to_vec();
    m[bitpos >> 3] ^= 1 << (bitpos & 7);
    m
}

fn field_of(bitpos: usize) -> &'static str {
    let b = bitpos >> 3;
    if b < U_BYTES {
        "u"
    } else if b < U_BYTES + SB {
        "x"
    } else {
        "t"
    }
}

fn hash_parts(m: &[u8]) -> String {
    format!("{}..{}", hx(&m[..6]), hx(&m[m.len() - 6..]))
}

fn run_jobs(jobs: &[Job], insts: &[Inst], honest_out: &[Option<(Vec<u8>, Vec<u8>)>], threads: usize) -> (Vec<JobResult>, u64) {
    let next = AtomicUsize::new(0);
    let results: Mutex<Vec<Option<JobResult>>> = Mutex::new((0..jobs.len()).map(|_| None).collect());
    let queries = Mutex::new(0u64);
    let _ = honest_out;
    std::thread::scope(|s| {
        for _ in 0..threads.max(1) {
            s.spawn(|| {
                let mut drv: Option<Driver> = None;
                loop {
                    let k = next.fetch_add(1, Ordering::SeqCst);
                    if k >= jobs.len() {
                        break;
                    }
                    let j = &jobs[k];
                    let it = &insts[j.inst];
                    let real = real_send(&it.sid, &it.rseed, &j.msg);
                    let mut model = None;
                    let mut model_adv = None;
                    if j.model || j.adv.is_some() {
                        let d = drv.get_or_insert_with(Driver::spawn);
                        if let Some((e, g)) = &j.adv {
                            let eb: Vec<u8> = e.iter().flat_map(|r| r.iter().copied()).collect();
                            model_adv = Some(
                                d.run("c03.adv", &[hx(&it.sid), hx(bytemuck::bytes_of(&it.sseed.otp_enc_keys)), hx(&it.choices), hx(&it.tape), hx(&eb), hx(g)])
                                    .map(|r| unhx(&r[0])),
                            );
                        }
                        if j.model {
                            model = Some(model_send(d, &it.sid, &it.rseed, &j.msg));
                        }
                    }
                    results.lock().unwrap()[k] = Some(JobResult { real, model, model_adv });
                }
                if let Some(d) = drv {
                    *queries.lock().unwrap() += d.queries;
                }
            });
        }
    });
    let q = *queries.lock().unwrap();
    (results.into_inner().unwrap().into_iter().map(|r| r.unwrap()).collect(), q)
}

pub fn run(kv: &Args) -> i32 {
    let seed = kv.u64("seed", 1);
    let out = kv.str("out", "/verif/build/run/C04");
    std::fs::create_dir_all(&out).unwrap();
    let thorough = kv.thorough();
    let threads = kv.u64("threads", 8) as usize;
    let mut r = rng(seed, "c04");
    let mut log = std::fs::File::create(format!("{out}/cases.txt")).unwrap();

    // ---- base instances
    let mut insts: Vec<Inst> = vec![];
    let n_inst = if thorough { 5 } else { 2 };
    for k in 0..n_inst {
        let sid_len = [32usize, 0, 100, 1, 32][k % 5];
        let mut sid = vec![0u8; sid_len];
        r.fill_bytes(&mut sid);
        // instance 1 has punctured indices 0 / 15 alternating (block 0 -> 0, blocks 31, 63 -> 15)
        let (sseed, rseed, sname) = seed_set([0usize, 3, 5, 4, 2][k % 5], seed, 1000 + k, &mut r);
        let (choices, cname) = choice_vector([6usize, 6, 0, 1, 3][k % 5], &mut r);
        let mut tape = [0u8; SB];
        r.fill_bytes(&mut tape);
        insts.push(make_inst(&format!("inst{k}[sid{sid_len},{sname},{cname}]"), sid, sseed, rseed, choices, tape));
    }
    // degenerate instance: every punctured index 0 (packed_nabla = 0): x is never looked at
    {
        let mut sid = vec![0u8; 32];
        r.fill_bytes(&mut sid);
        let (sseed, rseed, _) = seed_set(1, seed, 2000, &mut r);
        let (choices, _) = choice_vector(6, &mut r);
        let mut tape = [0u8; SB];
        r.fill_bytes(&mut tape);
        insts.push(make_inst("inst-nabla0[sid32,delta0,random]", sid, sseed, rseed, choices, tape));
    }
    let degenerate = insts.len() - 1;
    // honest instances whose check value x is degenerate: all-zero choice vector with an all-zero extension tape (x = 0), and
    // the all-one counterpart; only their honest messages are used (they are appended after `degenerate`)
    for (cb, tb, nm) in [(0u8, 0u8, "zero-choices-zero-tape"), (0xff, 0xff, "one-choices-one-tape"), (0, 0xff, "zero-choices-one-tape")] {
        let mut sid = vec![0u8; 32];
        r.fill_bytes(&mut sid);
        let (sseed, rseed, sname) = seed_set(5, seed, 2100 + cb as usize + tb as usize, &mut r);
        insts.push(make_inst(&format!("inst-{nm}[sid32,{sname}]"), sid, sseed, rseed, [cb; LB], [tb; SB]));
    }
    // an honest instance whose seed set has special key VALUES at known (non-punctured) leaves, the same on both sides:
    // all-zero and all-one keys (only its honest message is used)
    {
        let mut sid = vec![0u8; 32];
        r.fill_bytes(&mut sid);
        let (mut sseed, mut rseed, sname) = seed_set(5, seed, 2200, &mut r);
        for (tree, key) in [(0usize, [0u8; 32]), (9, [0u8; 32]), (63, [0xffu8; 32])] {
            let leaf = (rseed.random_choices[tree] as usize + 1 + tree % 5) % 16;
            sseed.otp_enc_keys[tree][leaf] = key;
            rseed.otp_dec_keys[tree][leaf] = key;
        }
        let (choices, cname) = choice_vector(6, &mut r);
        let mut tape = [0u8; SB];
        r.fill_bytes(&mut tape);
        insts.push(make_inst(&format!("inst-special-keys[sid32,{sname},{cname}]"), sid, sseed, rseed, choices, tape));
    }
    for it in &insts {
        writeln!(log, "instance {} sid={} choices={} tape={} random_choices={} enc_keys={}", it.name, hx(&it.sid), hx(&it.choices), hx(&it.tape),
            hx(&it.rseed.random_choices), hx(bytemuck::bytes_of(&it.sseed.otp_enc_keys))).unwrap();
    }

    let mut jobs: Vec<Job> = vec![];
    // ---- honest messages
    for (k, it) in insts.iter().enumerate() {
        jobs.push(Job { inst: k, kind: "honest".into(), detail: String::new(), msg: it.honest.clone(), expect: Expect::AcceptHonest, adv: None, model: true });
    }
    let n_main = degenerate;
    // ---- single-bit flips: 3 fields x N positions (model + real)
    let per_field = if thorough { 128 } else { 64 };
    for (field, lo, len) in [("u", 0usize, U_BYTES * 8), ("x", U_BYTES * 8, SB * 8), ("t", (U_BYTES + SB) * 8, ROWS * SB * 8)] {
        for n in 0..per_field {
            let k = n % n_main;
            let pos = lo + (r.next_u64() as usize) % len;
            jobs.push(Job { inst: k, kind: format!("bitflip-{field}"), detail: format!("bit {pos}"), msg: flip(&insts[k].honest, pos),
                expect: Expect::Reject, adv: None, model: true });
        }
    }
    // boundary positions of every field
    for pos in [0usize, U_BYTES * 8 - 1, U_BYTES * 8, (U_BYTES + SB) * 8 - 1, (U_BYTES + SB) * 8, MSG_BYTES * 8 - 1,
                (U_BYTES - LPB) * 8, (U_BYTES - SB) * 8 + 3, (MSG_BYTES - SB) * 8] {
        jobs.push(Job { inst: 0, kind: format!("bitflip-{}", field_of(pos)), detail: format!("boundary bit {pos}"), msg: flip(&insts[0].honest, pos),
            expect: Expect::Reject, adv: None, model: true });
    }
    // degenerate instance: x flips are accepted (with the honest outputs), t and u flips rejected
    for n in 0..4 {
        let it = &insts[degenerate];
        let px = U_BYTES * 8 + (r.next_u64() as usize) % (SB * 8);
        jobs.push(Job { inst: degenerate, kind: "bitflip-x-nabla0".into(), detail: format!("bit {px}"), msg: flip(&it.honest, px), expect: Expect::AcceptHonest, adv: None, model: n < 2 });
        let pt = (U_BYTES + SB) * 8 + (r.next_u64() as usize) % (ROWS * SB * 8);
        jobs.push(Job { inst: degenerate, kind: "bitflip-t".into(), detail: format!("nabla0 bit {pt}"), msg: flip(&it.honest, pt), expect: Expect::Reject, adv: None, model: n < 2 });
        let pu = (r.next_u64() as usize) % (U_BYTES * 8);
        jobs.push(Job { inst: degenerate, kind: "bitflip-u".into(), detail: format!("nabla0 bit {pu}"), msg: flip(&it.honest, pu), expect: Expect::Reject, adv: None, model: n < 2 });
    }
    // ---- multi-bit, overwritten and swapped fields
    let n_multi = if thorough { 40 } else { 6 };
    for n in 0..n_multi {
        let k = n % n_main;
        let mut m = insts[k].honest.clone();
        let nb = 2 + (r.next_u32() % 15) as usize;
        let mut ps = vec![];
        for _ in 0..nb {
            let p = (r.next_u64() as usize) % (MSG_BYTES * 8);
            m = flip(&m, p);
            ps.push(p);
        }
        jobs.push(Job { inst: k, kind: "multibit".into(), detail: format!("bits {:?}", ps), msg: m, expect: Expect::Reject, adv: None, model: true });
    }
    {
        let xo = U_BYTES;
        let to = U_BYTES + SB;
        let h = &insts[0].honest;
        let mut v: Vec<(&str, Vec<u8>)> = vec![];
        let mut m = h.clone(); m[xo..xo + SB].fill(0); v.push(("overwrite-x-zero", m));
        let mut m = h.clone(); m[xo..xo + SB].fill(0xff); v.push(("overwrite-x-ff", m));
        let mut m = h.clone(); m[to + 5 * SB..to + 6 * SB].fill(0); v.push(("overwrite-t-row5-zero", m));
        let mut m = h.clone(); m[to..].fill(0); v.push(("overwrite-t-zero", m));
        let mut m = h.clone(); m[63 * LPB..64 * LPB].fill(0); v.push(("overwrite-u-row63-zero", m));
        let mut m = h.clone(); m[..U_BYTES].fill(0); v.push(("overwrite-u-zero", m));
        v.push(("overwrite-all-zero", vec![0u8; MSG_BYTES]));
        let mut m = h.clone(); for k in 0..SB { m.swap(to + k, to + 255 * SB + k); } v.push(("swap-t-rows-0-255", m));
        let mut m = h.clone(); for k in 0..SB { m.swap(to + 4 * SB + k, to + 5 * SB + k); } v.push(("swap-t-rows-4-5", m));
        let mut m = h.clone(); for k in 0..LPB { m.swap(k, 63 * LPB + k); } v.push(("swap-u-rows-0-63", m));
        let mut m = h.clone(); for k in 0..SB { m.swap(xo + k, to + k); } v.push(("swap-x-t0", m));
        let mut m = h.clone(); for k in 0..SB { m.swap(xo + k, xo - SB + k); } v.push(("swap-x-utail", m));
        for (name, m) in v {
            jobs.push(Job { inst: 0, kind: name.split('-').next().unwrap().to_string(), detail: name.into(), msg: m, expect: Expect::Reject, adv: None, model: true });
        }
    }
    // ---- compensating alterations: the same XOR delta put into two (or all sixteen) bytes of one row, or into the same byte
    //      of two rows -- what survives a comparison that folds differences together (xor instead of or) before testing them
    {
        let xo = U_BYTES;
        let to = U_BYTES + SB;
        let h = &insts[0].honest;
        let mut n = 0usize;
        let mut add = |name: String, m: Vec<u8>, jobs: &mut Vec<Job>| {
            n += 1;
            jobs.push(Job { inst: 0, kind: "compensating".into(), detail: name, msg: m, expect: Expect::Reject, adv: None, model: n % 5 == 1 });
        };
        for (row, k1, k2, delta) in [(0usize, 0usize, 1usize, 1u8), (0, 3, 15, 0x80), (7, 5, 6, 0xff), (255, 0, 15, 1), (255, 14, 15, 0x10), (128, 0, 8, 0x55)] {
            let mut m = h.clone();
            m[to + row * SB + k1] ^= delta;
            m[to + row * SB + k2] ^= delta;
            add(format!("t row {row} bytes {k1},{k2} ^= {delta:02x}"), m, &mut jobs);
        }
        for (row, delta) in [(0usize, 1u8), (255, 0x80), (100, 0xff)] {
            let mut m = h.clone();
            for k in 0..SB { m[to + row * SB + k] ^= delta; }
            add(format!("t row {row} all bytes ^= {delta:02x}"), m, &mut jobs);
        }
        for (r1, r2, k, delta) in [(0usize, 1usize, 0usize, 1u8), (4, 5, 9, 0x80), (0, 255, 15, 0xff), (252, 255, 3, 2), (3, 4, 0, 1)] {
            let mut m = h.clone();
            m[to + r1 * SB + k] ^= delta;
            m[to + r2 * SB + k] ^= delta;
            add(format!("t rows {r1},{r2} byte {k} ^= {delta:02x}"), m, &mut jobs);
        }
        for (k1, k2, delta) in [(0usize, 1usize, 1u8), (0, 15, 0x80), (7, 8, 0xff)] {
            let mut m = h.clone();
            m[xo + k1] ^= delta;
            m[xo + k2] ^= delta;
            add(format!("x bytes {k1},{k2} ^= {delta:02x}"), m, &mut jobs);
        }
        for (row, k1, k2, delta) in [(0usize, 0usize, 1usize, 1u8), (63, 64, 79, 0x80), (31, 10, 70, 0xff)] {
            let mut m = h.clone();
            m[row * LPB + k1] ^= delta;
            m[row * LPB + k2] ^= delta;
            add(format!("u row {row} bytes {k1},{k2} ^= {delta:02x}"), m, &mut jobs);
        }
        for (r1, r2, k, delta) in [(0usize, 1usize, 0usize, 1u8), (0, 63, 79, 0x80)] {
            let mut m = h.clone();
            m[r1 * LPB + k] ^= delta;
            m[r2 * LPB + k] ^= delta;
            add(format!("u rows {r1},{r2} byte {k} ^= {delta:02x}"), m, &mut jobs);
        }
    }
    // ---- splices from another session / seed set / choice vector (check values not re-derived)
    {
        let it = &insts[0];
        let mut sid2 = it.sid.clone();
        sid2[0] ^= 1;
        let other_sid = real_recv(&sid2, &it.sseed, &vec![0u8; MSG_BYTES], &it.choices, &it.tape, 0).unwrap().0;
        let mut sid3 = it.sid.clone();
        sid3.push(0);
        let other_sid_ext = real_recv(&sid3, &it.sseed, &vec![0u8; MSG_BYTES], &it.choices, &it.tape, 0).unwrap().0;
        let (sseed2, _, _) = seed_set(5, seed, 3000, &mut r);
        let other_seed = real_recv(&it.sid, &sseed2, &vec![0u8; MSG_BYTES], &it.choices, &it.tape, 0).unwrap().0;
        let (choices2, _) = choice_vector(6, &mut r);
        let other_choice = real_recv(&it.sid, &it.sseed, &vec![0u8; MSG_BYTES], &choices2, &it.tape, 0).unwrap().0;
        let mut c3 = it.choices;
        c3[17] ^= 0x10;
        let near_choice = real_recv(&it.sid, &it.sseed, &vec![0u8; MSG_BYTES], &c3, &it.tape, 0).unwrap().0;
        let mut tape2 = it.tape;
        tape2[0] ^= 1;
        let other_tape = real_recv(&it.sid, &it.sseed, &vec![0u8; MSG_BYTES], &it.choices, &tape2, 0).unwrap().0;
        let xo = U_BYTES;
        let to = U_BYTES + SB;
        let splice = |a: &[u8], b: &[u8], c: &[u8]| -> Vec<u8> { [&a[..xo], &b[xo..to], &c[to..]].concat() };
        let h = &it.honest;
        let v: Vec<(&str, Vec<u8>)> = vec![
            ("cross-session-whole", other_sid.clone()),
            ("cross-session-extended-whole", other_sid_ext),
            ("cross-session-u", splice(&other_sid, h, h)),
            ("cross-session-xt", splice(h, &other_sid, &other_sid)),
            ("cross-seed-whole", other_seed.clone()),
            ("cross-seed-u", splice(&other_seed, h, h)),
            ("cross-seed-t", splice(h, h, &other_seed)),
            ("cross-choice-u", splice(&other_choice, h, h)),
            ("cross-choice-x", splice(h, &other_choice, h)),
            ("cross-choice-t", splice(h, h, &other_choice)),
            ("cross-choice-xt", splice(h, &other_choice, &other_choice)),
            ("cross-choice-ux", splice(&other_choice, &other_choice, h)),
            ("cross-choice-near-u", splice(&near_choice, h, h)),
            ("cross-choice-near-xt", splice(h, &near_choice, &near_choice)),
            ("cross-tape-u", splice(&other_tape, h, h)),
            ("cross-tape-xt", splice(h, &other_tape, &other_tape)),
        ];
        for (name, m) in v {
            let kind = name.splitn(3, '-').take(2).collect::<Vec<_>>().join("-");
            jobs.push(Job { inst: 0, kind, detail: name.into(), msg: m, expect: Expect::Reject, adv: None, model: true });
        }
        // a whole honest message for another choice vector / tape is of course accepted
        jobs.push(Job { inst: 0, kind: "honest-other-choice".into(), detail: String::new(), msg: other_choice, expect: Expect::Accept, adv: None, model: true });
    }
    // ---- calibrated selective-failure adversary
    let n_cal = kv.u64("calibrated", if thorough { 2000 } else { 32 }) as usize;
    let n_cal_model = if thorough { 96 } else { n_cal };
    for n in 0..n_cal {
        let k = if n % 3 == 2 { 0 } else { 1 % n_main };
        let it = &insts[k];
        let mut e = vec![[0u8; LPB]; TREES];
        let mut g = vec![0u8; TREES];
        // which blocks deviate: one of 0 / 31 / 63, sometimes several, thorough: also random blocks
        let blocks: Vec<usize> = match n % 8 {
            0 | 1 | 2 => vec![[0usize, 31, 63][n % 3]],
            3 => vec![0, 31, 63],
            4 => vec![31, 63],
            5 => vec![[0usize, 31, 63][(n / 8) % 3]],
            _ => vec![if thorough { (r.next_u32() % 64) as usize } else { [63usize, 0, 31][(n / 8) % 3] }],
        };
        // guess policy per block: right / wrong / zero
        let policy = (n / 3) % 4;
        let mut all_right = true;
        let mut desc = vec![];
        for (bi, &b) in blocks.iter().enumerate() {
            match (n / 2) % 3 {
                0 => r.fill_bytes(&mut e[b]),
                1 => {
                    let p = (r.next_u32() as usize) % (LPB * 8);
                    e[b][p >> 3] = 1 << (p & 7);
                }
                _ => r.fill_bytes(&mut e[b][LB..]),
            }
            let d = it.rseed.random_choices[b];
            g[b] = match policy {
                0 => d,
                1 => d ^ (1 << (r.next_u32() % 4)),
                2 => 0,
                _ => if bi == 0 { d } else { (r.next_u32() % 16) as u8 },
            };
            if g[b] != d {
                all_right = false;
            }
            desc.push(format!("block {b} delta {d} guess {}", g[b]));
        }
        let (msg, images) = adversary(&it.sid, &it.sseed, &it.choices, &it.tape, &e, &g);
        let degenerate_image = blocks.iter().any(|&b| images[b] == [0u8; SB]);
        let zero_guess = blocks.iter().all(|&b| g[b] == 0);
        let expect = if degenerate_image {
            Expect::Any
        } else if all_right && zero_guess {
            Expect::AcceptHonest
        } else if all_right {
            Expect::Accept
        } else {
            Expect::Reject
        };
        let kind = format!("calibrated-{}", if all_right { if zero_guess { "zero-right" } else { "right" } } else if zero_guess { "zero-wrong" } else { "wrong" });
        let with_model = n < n_cal_model;
        jobs.push(Job { inst: k, kind, detail: desc.join(", "), msg, expect, adv: if with_model { Some((e, g)) } else { None }, model: with_model });
    }

    // ---- run
    let honest_out: Vec<Option<(Vec<u8>, Vec<u8>)>> = insts.iter().map(|it| match real_send(&it.sid, &it.rseed, &it.honest) {
        Verdict::Ok(a, b) => Some((a, b)),
        _ => None,
    }).collect();
    let (results, queries) = run_jobs(&jobs, &insts, &honest_out, threads);

    let mut n_eval = 0u64;
    let mut n_mut = 0u64;
    let mut disagreements: Vec<String> = vec![];
    let mut oracle_fail: Vec<String> = vec![];
    let mut samples: Vec<String> = vec![];
    let mut kinds: std::collections::BTreeMap<String, u64> = Default::default();
    for (j, res) in jobs.iter().zip(&results) {
        let it = &insts[j.inst];
        *kinds.entry(j.kind.clone()).or_default() += 1;
        if j.kind != "honest" {
            n_mut += 1;
        }
        let id = format!("{} {} [{}] on {}", j.kind, j.detail, hash_parts(&j.msg), it.name);
        writeln!(log, "{id} -> real {} model {}", res.real.tag(), match &res.model { Some(Ok(v)) => v.tag(), Some(Err(e)) => e.clone(), None => "-".into() }).unwrap();
        if let Some(m) = &res.model {
            n_eval += 1;
            match m {
                Ok(v) if *v == res.real => {}
                Ok(v) => disagreements.push(format!("sender verdict/output: impl {} model {} -- {id}", res.real.tag(), v.tag())),
                Err(e) => disagreements.push(format!("sender model error {e} -- {id}")),
            }
        }
        if let Some(m) = &res.model_adv {
            n_eval += 1;
            match m {
                Ok(b) if *b == j.msg => {}
                Ok(b) => disagreements.push(format!("adversary message: harness vs model adv_receiver differ at byte {:?} -- {id}",
                    b.iter().zip(&j.msg).position(|(x, y)| x != y))),
                Err(e) => disagreements.push(format!("adv_receiver model error {e} -- {id}")),
            }
        }
        if samples.len() < 6 && (j.kind.starts_with("calibrated") || samples.len() < 3) {
            samples.push(format!("{id} -> {}", res.real.tag()));
        }
        // the property itself on the real sender
        let replay = || format!("{id}; sid={} choices={} tape={} random_choices={} message={}", hx(&it.sid), hx(&it.choices), hx(&it.tape), hx(&it.rseed.random_choices), hx(&j.msg));
        if j.msg == it.honest && j.kind != "honest" {
            continue; // a corruption that happens to be the identity
        }
        match (&j.expect, &res.real) {
            (Expect::Any, _) => {}
            (Expect::Reject, Verdict::Err(1)) => {}
            (Expect::Reject, other) => oracle_fail.push(format!("deviating message not rejected with the ban error (got {}) -- {}", other.tag(), replay())),
            (Expect::Accept, Verdict::Ok(..)) => {}
            (Expect::AcceptHonest, Verdict::Ok(a, b)) => {
                match &honest_out[j.inst] {
                    Some((h0, h1)) if h0 == a && h1 == b => {}
                    _ => oracle_fail.push(format!("accepted, but the sender's outputs differ from those of the honest message -- {}", replay())),
                }
            }
            (Expect::Accept | Expect::AcceptHonest, other) => oracle_fail.push(format!("message that must be accepted was not (got {}) -- {}", other.tag(), replay())),
        }
    }

    // ---- thorough: EVERY bit position of the first-round message against the real sender
    let mut exhaustive = 0u64;
    if thorough || kv.get("exhaustive").is_some() {
        let it = &insts[0];
        let next = AtomicUsize::new(0);
        let bad: Mutex<Vec<(usize, String)>> = Mutex::new(vec![]);
        let total = MSG_BYTES * 8;
        std::thread::scope(|s| {
            for _ in 0..threads.max(1) {
                s.spawn(|| loop {
                    let p = next.fetch_add(1, Ordering::SeqCst);
                    if p >= total {
                        break;
                    }
                    let v = real_send(&it.sid, &it.rseed, &flip(&it.honest, p));
                    if v != Verdict::Err(1) {
                        bad.lock().unwrap().push((p, v.tag()));
                    }
                });
            }
        });
        exhaustive = total as u64;
        let mut bad = bad.into_inner().unwrap();
        bad.sort();
        for (p, tag) in bad.iter().take(5) {
            oracle_fail.push(format!("exhaustive sweep: flipping bit {p} (field {}) of the honest message is not rejected (got {tag}) -- instance {} sid={} choices={} tape={} random_choices={}",
                field_of(*p), it.name, hx(&it.sid), hx(&it.choices), hx(&it.tape), hx(&it.rseed.random_choices)));
        }
        *kinds.entry("exhaustive-bitflip-real-only".into()).or_default() += total as u64;
    }

    let mut f = std::fs::File::create(format!("{out}/result.txt")).unwrap();
    writeln!(f, "evaluations {n_eval}").unwrap();
    writeln!(f, "mutations {n_mut}").unwrap();
    writeln!(f, "oracle_queries {queries}").unwrap();
    writeln!(f, "exhaustive_bit_positions {exhaustive}").unwrap();
    for (k, v) in &kinds {
        writeln!(f, "kind {k} {v}").unwrap();
    }
    for s in &samples {
        writeln!(f, "SAMPLE {s}").unwrap();
    }
    for d in &disagreements {
        writeln!(f, "DISAGREE {d}").unwrap();
    }
    for d in &oracle_fail {
        writeln!(f, "ORACLE {d}").unwrap();
    }
    0
}
