//! C16: the relay keeps entries for their TTL and forgets them afterwards.  Same machinery as C15
//! (histories against the real SimpleMessageRelay with the virtual clock), generators biased to the
//! orderings the property names; `messages()` is recorded after every operation.
use crate::util::*;

pub fn run(kv: &Args) -> i32 {
    crate::c15::run_profile(kv, true)
}
