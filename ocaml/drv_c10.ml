(* C10 is served by the functions registered in drv_c09.ml (same model, coq/Model/VEnc.v). *)
let init () = ()
