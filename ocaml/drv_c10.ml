(* C10 driver section: not implemented yet *)
let init () = ()
