(* C03 driver section: not implemented yet *)
let init () = ()
