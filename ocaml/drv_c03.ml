(* C03/C04: SoftSpoken OT extension model (coq/Model/SoftSpoken.v).  Structured data travel as the byte
   images the Rust side obtains with bytemuck (row-major, repr(C) field order). *)
module M = M_c03
module S = Proto.Std (M)
module C = S.C

let rec nat_of_int (i : int) : M.nat = if i <= 0 then M.O else M.S (nat_of_int (i - 1))
let split (n : int) (k : int) (l : 'a list) : 'a list list = M.chunks (nat_of_int n) (nat_of_int k) l
let flat2 (m : M.n list list) : M.n list = List.concat m
let flat3 (m : M.n list list list) : M.n list = List.concat (List.map List.concat m)

(* [[[u8;32];16];64] *)
let keys_of_hex (h : string) : M.n list list list =
  List.map (split 32 16) (split (32 * 16) 64 (C.bytes_of_hex h))

(* Round1Output { u : [[u8;80];64], x : [u8;16], t : [[u8;16];256] } *)
let round1_of_hex (h : string) : M.round1Output =
  let b = C.bytes_of_hex h in
  match split 5120 1 b, split 16 1 (M.skipn (nat_of_int 5120) b), split 4096 1 (M.skipn (nat_of_int 5136) b) with
  | [u], [x], [t] -> { M.r1_u = split 80 64 u; M.r1_x = x; M.r1_t = split 16 256 t }
  | _ -> failwith "round1_of_hex"

let init () =
  (* recv sid enc_keys buf choices tape -> message bytes, recorded choices, v_x *)
  Proto.register "c03.recv" (fun args -> match args with
    | [sid; keys; buf; choices; tape] ->
      let (m, e) = M.ss_receiver_buf S.transcript (C.bytes_of_hex sid) (keys_of_hex keys) (round1_of_hex buf)
          (C.bytes_of_hex choices) (C.bytes_of_hex tape) in
      [C.hex_of_bytes (M.round1_bytes m); C.hex_of_bytes e.M.re_choices; C.hex_of_bytes (flat3 e.M.re_v_x)]
    | _ -> failwith "c03.recv: arity");
  (* recv0: Default buffer *)
  Proto.register "c03.recv0" (fun args -> match args with
    | [sid; keys; choices; tape] ->
      let (m, e) = M.ss_receiver S.transcript (C.bytes_of_hex sid) (keys_of_hex keys)
          (C.bytes_of_hex choices) (C.bytes_of_hex tape) in
      [C.hex_of_bytes (M.round1_bytes m); C.hex_of_bytes e.M.re_choices; C.hex_of_bytes (flat3 e.M.re_v_x)]
    | _ -> failwith "c03.recv0: arity");
  (* send sid random_choices dec_keys message -> ok v_0 v_1 | err code *)
  Proto.register "c03.send" (fun args -> match args with
    | [sid; deltas; keys; msg] ->
      let seed = { M.random_choices = C.bytes_of_hex deltas; M.otp_dec_keys = keys_of_hex keys } in
      (match M.ss_sender S.transcript (C.bytes_of_hex sid) seed (round1_of_hex msg) with
       | M.Val o -> ["ok"; C.hex_of_bytes (flat3 o.M.se_v_0); C.hex_of_bytes (flat3 o.M.se_v_1)]
       | M.Err e -> ["err"; C.hex_of_n e]
       | M.Panic p -> ["panic"; C.hex_of_n p])
    | _ -> failwith "c03.send: arity");
  (* adv sid enc_keys choices tape e(64*80 bytes) g(64 bytes) -> message bytes *)
  Proto.register "c03.adv" (fun args -> match args with
    | [sid; keys; choices; tape; e; g] ->
      let m = M.adv_receiver S.transcript (C.bytes_of_hex sid) (keys_of_hex keys) (C.bytes_of_hex choices)
          (C.bytes_of_hex tape) (split 80 64 (C.bytes_of_hex e)) (C.bytes_of_hex g) in
      [C.hex_of_bytes (M.round1_bytes m)]
    | _ -> failwith "c03.adv: arity");
  (* genseed keys picks -> enc keys, random_choices, dec keys *)
  Proto.register "c03.genseed" (fun args -> match args with
    | [keys; picks] ->
      let (s, r) = M.gen_seed_ot (keys_of_hex keys) (C.bytes_of_hex picks) in
      [C.hex_of_bytes (flat3 s); C.hex_of_bytes r.M.random_choices; C.hex_of_bytes (flat3 r.M.otp_dec_keys)]
    | _ -> failwith "c03.genseed: arity")
