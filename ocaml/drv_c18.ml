(* C18 driver section: not implemented yet *)
let init () = ()
