(* C12 driver section: not implemented yet *)
let init () = ()
