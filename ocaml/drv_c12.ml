(* C12: BIP32 public derivation model (coq/Model/Bip32.v) and specification (coq/Model/Bip32Spec.v).
   The group, HMAC-SHA512, SHA-256 and RIPEMD-160 are oracles answered by the harness. *)
module M = M_c12
module S = Proto.Std (M)
module C = S.C
let q () = C.z_of_hex "FFFFFFFFFFFFFFFFFFFFFFFFFFFFFFFEBAAEDCE6AF48A03BBFD25E8CD0364141"

let hmac512 k d = C.bytes_of_hex (S.one "hmac512" [C.hex_of_bytes k; C.hex_of_bytes d])
let sha256 d = C.bytes_of_hex (S.one "sha256" [C.hex_of_bytes d])
let ripemd160 d = C.bytes_of_hex (S.one "ripemd160" [C.hex_of_bytes d])

let parse_path (s : string) : M.n list =
  if s = "-" || s = "" then [] else List.map C.n_of_hex (String.split_on_char ',' s)

let parse_prefix (s : string) : M.prefix =
  match s with
  | "x" -> M.XPub | "y" -> M.YPub | "z" -> M.ZPub | "t" -> M.TPub
  | _ when String.length s > 1 && s.[0] = 'c' -> M.Custom (C.n_of_hex (String.sub s 1 (String.length s - 1)))
  | _ -> failwith "c12: bad prefix"

let str_outcome (o : M.n list M.outcome) : string =
  match o with
  | M.Val s -> "val:" ^ C.hex_of_bytes s
  | M.Err e -> "err:" ^ C.hex_of_n e
  | M.Panic p -> "panic:" ^ C.hex_of_n p

let init () =
  (* derive_child_pubkey parent chain_code index *)
  Proto.register "c12.child" (fun args -> match args with
    | [p; cc; i] ->
      let g = S.group "k" in
      (match M.derive_child_pubkey g hmac512 (q ()) p (C.bytes_of_hex cc) (C.n_of_hex i) with
       | M.Val ((o, child), cc') -> ["val"; C.hex_of_z o; child; C.hex_of_bytes cc']
       | M.Err e -> ["err"; C.hex_of_n e]
       | M.Panic s -> ["panic"; C.hex_of_n s])
    | _ -> failwith "c12.child: arity");
  Proto.register "c12.fp" (fun args -> match args with
    | [p] ->
      let g = S.group "k" in
      [str_outcome (M.get_finger_print g sha256 ripemd160 p)]
    | _ -> failwith "c12.fp: arity");
  (* derive_xpub prefix root chain_code path, then to_string(false) and to_string(true) of an Ok result *)
  Proto.register "c12.xpub" (fun args -> match args with
    | [pfx; root; cc; path] ->
      let g = S.group "k" in
      (match M.derive_xpub g hmac512 sha256 ripemd160 (q ()) (parse_prefix pfx) root (C.bytes_of_hex cc) (parse_path path) with
       | M.Val x ->
         ["val"; C.hex_of_n (M.prefix_u32 x.M.x_prefix); C.hex_of_n x.M.x_depth; C.hex_of_bytes x.M.x_parent_fingerprint;
          C.hex_of_n x.M.x_child_number; C.hex_of_bytes x.M.x_chain_code; x.M.x_pubkey;
          str_outcome (M.to_string g sha256 x false); str_outcome (M.to_string g sha256 x true)]
       | M.Err e -> ["err"; C.hex_of_n e]
       | M.Panic s -> ["panic"; C.hex_of_n s])
    | _ -> failwith "c12.xpub: arity");
  (* to_string of a hand-made XPubKey *)
  Proto.register "c12.tostring" (fun args -> match args with
    | [pfx; depth; fp; num; cc; key] ->
      let g = S.group "k" in
      let x = { M.x_prefix = parse_prefix pfx; M.x_parent_fingerprint = C.bytes_of_hex fp; M.x_child_number = C.n_of_hex num;
                M.x_pubkey = key; M.x_chain_code = C.bytes_of_hex cc; M.x_depth = C.n_of_hex depth } in
      [str_outcome (M.to_string g sha256 x false); str_outcome (M.to_string g sha256 x true)]
    | _ -> failwith "c12.tostring: arity");
  Proto.register "c12.offsets" (fun args -> match args with
    | [root; cc; path] ->
      let g = S.group "k" in
      let os = M.walk_offsets g hmac512 (q ()) root (C.bytes_of_hex cc) (parse_path path) in
      [if os = [] then "-" else String.concat "," (List.map C.hex_of_z os)]
    | _ -> failwith "c12.offsets: arity");
  (* the specification: bip32_spec + spec_string *)
  Proto.register "c12.spec" (fun args -> match args with
    | [version; root; cc; path] ->
      let g = S.group "k" in
      (match M.bip32_spec g hmac512 sha256 ripemd160 (q ()) root (C.bytes_of_hex cc) (parse_path path) with
       | Some e ->
         let v = C.n_of_hex version in
         ["some"; C.hex_of_n e.M.e_depth; C.hex_of_bytes e.M.e_fingerprint; C.hex_of_n e.M.e_child_number;
          C.hex_of_bytes e.M.e_chain_code; e.M.e_key;
          (match M.spec_string g sha256 v e false with Some s -> C.hex_of_bytes s | None -> "unserialisable");
          (match M.spec_string g sha256 v e true with Some s -> C.hex_of_bytes s | None -> "unserialisable")]
       | None -> ["none"])
    | _ -> failwith "c12.spec: arity");
  Proto.register "c12.ckdpub" (fun args -> match args with
    | [p; cc; i] ->
      let g = S.group "k" in
      (match M.cKDpub g hmac512 (q ()) p (C.bytes_of_hex cc) (C.n_of_hex i) with
       | Some (k, c) -> ["some"; k; C.hex_of_bytes c; C.hex_of_bytes (M.fingerprint g sha256 ripemd160 p)]
       | None -> ["none"])
    | _ -> failwith "c12.ckdpub: arity");
  (* Base58 alone: encode, and decode of the encoding *)
  Proto.register "c12.b58" (fun args -> match args with
    | [b] ->
      let s = M.base58_encode (C.bytes_of_hex b) in
      [C.hex_of_bytes s;
       (match M.base58_decode s with Some r -> "some:" ^ C.hex_of_bytes r | None -> "none")]
    | _ -> failwith "c12.b58: arity");
  Proto.register "c12.b58dec" (fun args -> match args with
    | [s] -> [(match M.base58_decode (C.bytes_of_hex s) with Some r -> "some:" ^ C.hex_of_bytes r | None -> "none")]
    | _ -> failwith "c12.b58dec: arity")
