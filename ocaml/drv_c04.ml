(* C04 driver section: not implemented yet *)
let init () = ()
