(* C01/C02: random vector OLE, both variants (coq/Model/Rvole.v over Model/RvoleCore.v, SoftSpoken.v,
   Endemic.v).  Structured data travel as the byte images the Rust side obtains with bytemuck; scalar
   lists as comma separated hex numbers; receiver states stay in this process, keyed by an id chosen
   by the harness (they are outputs of the model's own `new`). *)
module M = M_c01
module S = Proto.Std (M)
module C = S.C

let q () = C.z_of_hex "FFFFFFFFFFFFFFFFFFFFFFFFFFFFFFFEBAAEDCE6AF48A03BBFD25E8CD0364141"

let rec nat_of_int (i : int) : M.nat = if i <= 0 then M.O else M.S (nat_of_int (i - 1))
let rec int_of_nat (n : M.nat) : int = match n with M.O -> 0 | M.S k -> 1 + int_of_nat k
let split (n : int) (k : int) (l : 'a list) : 'a list list = M.chunks (nat_of_int n) (nat_of_int k) l

let split_list (s : string) : string list =
  if s = "-" || s = "" then [] else String.split_on_char ',' s
let join_list (l : string list) : string = if l = [] then "-" else String.concat "," l
let zlist (s : string) : M.z list = List.map C.z_of_hex (split_list s)
let arg_of_zlist (l : M.z list) : string = join_list (List.map C.hex_of_z l)

(* [[[u8;32];16];64] *)
let keys_of_hex (h : string) : M.n list list list =
  List.map (split 32 16) (split (32 * 16) 64 (C.bytes_of_hex h))

(* Round1Output { u : [[u8;80];64], x : [u8;16], t : [[u8;16];256] } *)
let round1_of_hex (h : string) : M.round1Output =
  let b = C.bytes_of_hex h in
  match split 5120 1 b, split 16 1 (M.skipn (nat_of_int 5120) b), split 4096 1 (M.skipn (nat_of_int 5136) b) with
  | [u], [x], [t] -> { M.r1_u = split 80 64 u; M.r1_x = x; M.r1_t = split 16 256 t }
  | _ -> failwith "round1_of_hex"

(* RHO blocks of 64 rng bytes *)
let eta_of_hex (h : string) : M.n list list =
  let b = C.bytes_of_hex h in
  split 64 (List.length b / 64) b

(* EndemicOTMsg1/2: 256 x [[u8;33];2] *)
let eot_msg_of_hex (h : string) : (M.n list * M.n list) list =
  let b = C.bytes_of_hex h in
  List.map (fun e -> match split 33 2 e with [x; y] -> (x, y) | _ -> failwith "eot_msg_of_hex")
    (split 66 (List.length b / 66) b)

let rec pairs (l : 'a list) : ('a * 'a) list = match l with
  | a :: b :: r -> (a, b) :: pairs r
  | [] -> []
  | [_] -> failwith "c01: odd number of items"

(* adversary specification: entries "j/a0,a1/g" separated by ';' *)
let spec_of_arg (s : string) : (M.nat * (M.z list * bool)) list =
  if s = "-" || s = "" then [] else
    List.map (fun e -> match String.split_on_char '/' e with
        | [j; a; g] -> (nat_of_int (int_of_string j), (zlist a, g = "1"))
        | _ -> failwith "spec_of_arg")
      (String.split_on_char ';' s)

(* The transcript oracle of this driver.  Same function as [S.transcript] (the whole history is what
   determines the answer), but successive challenges of ONE growing transcript (gadget vector: 512 of
   them) are sent incrementally: when the history of the previous query is a prefix of the new one, only
   the new operations travel ("HX"), and the harness continues the merlin transcript it kept after the
   previous challenge -- which is what replaying the whole history computes.  Otherwise "HN" sends the
   whole history. *)
let hex2 : string array = Array.init 256 (fun i -> Printf.sprintf "%02x" i)
let fast_hex (l : M.n list) : string =
  if l = [] then "-" else begin
    let b = Buffer.create 64 in
    List.iter (fun x -> Buffer.add_string b hex2.(C.int_of_n x land 255)) l;
    Buffer.contents b
  end
let ser_top (t : M.top) : string = match t with
  | M.TInit l -> "I:" ^ fast_hex l
  | M.TAppend (l, d) -> "M:" ^ fast_hex l ^ ":" ^ fast_hex d
  | M.TAppendU64 (l, v) -> "U:" ^ fast_hex l ^ ":" ^ C.hex_of_n v
  | M.TChallenge (l, n) -> "C:" ^ fast_hex l ^ ":" ^ C.hex_of_n n
let last_ops : M.top list ref = ref []
let rec strip_prefix (p : M.top list) (l : M.top list) : M.top list option = match p, l with
  | [], r -> Some r
  | x :: p', y :: l' -> if x = y then strip_prefix p' l' else None
  | _ :: _, [] -> None
let all_bytes_ok (ops : M.top list) : bool =
  let ok l = List.for_all (fun x -> C.int_of_n x < 256) l in
  List.for_all (fun t -> match t with
      | M.TInit l -> ok l | M.TAppend (l, d) -> ok l && ok d
      | M.TAppendU64 (l, _) -> ok l | M.TChallenge (l, _) -> ok l) ops
let transcript (ops : M.top list) : M.n list =
  if not (all_bytes_ok ops) then S.transcript ops else begin
    let ser l = String.concat "," (List.map ser_top l) in
    let ans = match (if !last_ops = [] then None else strip_prefix !last_ops ops) with
      | Some (_ :: _ as suffix) -> Proto.ask ["HX"; ser suffix]
      | _ -> Proto.ask ["HN"; ser ops] in
    last_ops := ops;
    match ans with
    | [h] -> C.bytes_of_hex h
    | _ -> failwith "HN/HX: bad answer"
  end

let msg_of_hex (h : string) : M.rmsg = M.rmsg_of_bytes M.rv_xi M.rv_lb M.rv_rho (C.bytes_of_hex h)
let hex_of_msg (m : M.rmsg) : string = C.hex_of_bytes (M.rmsg_to_bytes m)

let states : (string, M.rv_state) Hashtbl.t = Hashtbl.create 16
let ot_states : (string, M.rvo_state) Hashtbl.t = Hashtbl.create 16

let outcome_z (r : M.z list M.outcome) : string list = match r with
  | M.Val d -> ["ok"; arg_of_zlist d]
  | M.Err e -> ["err"; C.hex_of_n e]
  | M.Panic p -> ["panic"; C.hex_of_n p]

let init () =
  (* new id sid enc_keys buf beta tape -> b, round-one message bytes, state bytes *)
  Proto.register "c01.new" (fun args -> match args with
    | [id; sid; keys; buf; beta; tape] ->
      let ((st, b), r1) = M.rvole_recv_new transcript (q ()) (C.bytes_of_hex sid)
          (keys_of_hex keys) (round1_of_hex buf) (C.bytes_of_hex beta) (C.bytes_of_hex tape) in
      Hashtbl.replace states id st;
      [C.hex_of_z b; C.hex_of_bytes (M.round1_bytes r1); C.hex_of_bytes (M.rv_state_bytes st)]
    | _ -> failwith "c01.new: arity");
  (* send sid random_choices dec_keys a round1 eta_tape -> ok msg c | err code *)
  Proto.register "c01.send" (fun args -> match args with
    | [sid; deltas; keys; a; r1; eta] ->
      let seed = { M.random_choices = C.bytes_of_hex deltas; M.otp_dec_keys = keys_of_hex keys } in
      (match M.rvole_send_process transcript (q ()) (C.bytes_of_hex sid) seed (zlist a) (round1_of_hex r1)
               (eta_of_hex eta) with
       | M.Val (m, c) -> ["ok"; hex_of_msg m; arg_of_zlist c]
       | M.Err e -> ["err"; C.hex_of_n e]
       | M.Panic p -> ["panic"; C.hex_of_n p])
    | _ -> failwith "c01.send: arity");
  (* recv id msg -> ok d | err code *)
  Proto.register "c01.recv" (fun args -> match args with
    | [id; msg] ->
      let st = Hashtbl.find states id in
      outcome_z (M.rvole_recv_process transcript (q ()) st (msg_of_hex msg))
    | _ -> failwith "c01.recv: arity");
  (* adv sid random_choices dec_keys a round1 eta_tape spec -> ok msg | err code *)
  Proto.register "c01.adv" (fun args -> match args with
    | [sid; deltas; keys; a; r1; eta; spec] ->
      let seed = { M.random_choices = C.bytes_of_hex deltas; M.otp_dec_keys = keys_of_hex keys } in
      (match M.rvole_adv_send transcript (q ()) (C.bytes_of_hex sid) seed (zlist a) (round1_of_hex r1)
               (eta_of_hex eta) (spec_of_arg spec) with
       | M.Val m -> ["ok"; hex_of_msg m]
       | M.Err e -> ["err"; C.hex_of_n e]
       | M.Panic p -> ["panic"; C.hex_of_n p])
    | _ -> failwith "c01.adv: arity");
  (* ---- base-OT variant ---- *)
  (* ot_new id sid bits_a tas_a ros_a bits_b tas_b ros_b -> ok b msg1a msg1b *)
  Proto.register "c01.ot_new" (fun args -> match args with
    | [id; sid; bits_a; tas_a; ros_a; bits_b; tas_b; ros_b] ->
      let g = S.group "k" in
      (match M.rvole_ot_recv_new transcript (q ()) g (C.bytes_of_hex sid)
               (C.bytes_of_hex bits_a) (zlist tas_a) (split_list ros_a)
               (C.bytes_of_hex bits_b) (zlist tas_b) (split_list ros_b) with
       | M.Val ((st, b), (m1a, m1b)) ->
         Hashtbl.replace ot_states id st;
         ["ok"; C.hex_of_z b; C.hex_of_bytes (M.eot_msg_bytes m1a); C.hex_of_bytes (M.eot_msg_bytes m1b);
          C.hex_of_bytes st.M.ro_beta]
       | M.Err e -> ["err"; C.hex_of_n e]
       | M.Panic p -> ["panic"; C.hex_of_n p])
    | _ -> failwith "c01.ot_new: arity");
  (* ot_send sid a m1a m1b tbs_a tbs_b eta -> verdict m2a m2b msg c *)
  Proto.register "c01.ot_send" (fun args -> match args with
    | [sid; a; m1a; m1b; tbs_a; tbs_b; eta] ->
      let g = S.group "k" in
      let ((m2a, m2b), r) = M.rvole_ot_send_process transcript (q ()) g (C.bytes_of_hex sid) (zlist a)
          (eot_msg_of_hex m1a) (eot_msg_of_hex m1b) (pairs (zlist tbs_a)) (pairs (zlist tbs_b)) (eta_of_hex eta) in
      let ha = C.hex_of_bytes (M.eot_msg_bytes m2a) and hb = C.hex_of_bytes (M.eot_msg_bytes m2b) in
      (match r with
       | M.Val (m, c) -> ["ok"; ha; hb; hex_of_msg m; arg_of_zlist c]
       | M.Err e -> ["err" ^ C.hex_of_n e; ha; hb; "-"; "-"]
       | M.Panic p -> ["panic" ^ C.hex_of_n p; ha; hb; "-"; "-"])
    | _ -> failwith "c01.ot_send: arity");
  (* ot_recv id m2a m2b msg -> ok d | err code *)
  Proto.register "c01.ot_recv" (fun args -> match args with
    | [id; m2a; m2b; msg] ->
      let g = S.group "k" in
      let st = Hashtbl.find ot_states id in
      outcome_z (M.rvole_ot_recv_process transcript (q ()) g st (eot_msg_of_hex m2a) (eot_msg_of_hex m2b)
                   (msg_of_hex msg))
    | _ -> failwith "c01.ot_recv: arity");
  (* ot_adv sid a m1a m1b tbs_a tbs_b eta spec -> verdict m2a m2b msg *)
  Proto.register "c01.ot_adv" (fun args -> match args with
    | [sid; a; m1a; m1b; tbs_a; tbs_b; eta; spec] ->
      let g = S.group "k" in
      let ((m2a, m2b), r) = M.rvole_ot_adv_send transcript (q ()) g (C.bytes_of_hex sid) (zlist a)
          (eot_msg_of_hex m1a) (eot_msg_of_hex m1b) (pairs (zlist tbs_a)) (pairs (zlist tbs_b)) (eta_of_hex eta)
          (spec_of_arg spec) in
      let ha = C.hex_of_bytes (M.eot_msg_bytes m2a) and hb = C.hex_of_bytes (M.eot_msg_bytes m2b) in
      (match r with
       | M.Val m -> ["ok"; ha; hb; hex_of_msg m]
       | M.Err e -> ["err" ^ C.hex_of_n e; ha; hb; "-"]
       | M.Panic p -> ["panic" ^ C.hex_of_n p; ha; hb; "-"])
    | _ -> failwith "c01.ot_adv: arity");
  Proto.register "c01.has" (fun args -> match args with
    | [id] -> [if Hashtbl.mem states id || Hashtbl.mem ot_states id then "1" else "0"]
    | _ -> failwith "c01.has: arity");
  Proto.register "c01.drop" (fun args -> List.iter (fun id -> Hashtbl.remove states id; Hashtbl.remove ot_states id) args; ["ok"])
