(* C01 driver section: not implemented yet *)
let init () = ()
