(* C06 driver section: not implemented yet *)
let init () = ()
