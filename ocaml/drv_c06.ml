(* C06: all-but-one PPRF model (coq/Model/Pprf.v).  All structured data travel as the byte images the
   Rust side obtains with bytemuck; they are parsed by the model's own [*_of_bytes] functions. *)
module M = M_c06
module S = Proto.Std (M)
module C = S.C

let rec nat_of_int (i : int) : M.nat = if i <= 0 then M.O else M.S (nat_of_int (i - 1))
let rec int_of_nat (n : M.nat) : int = match n with M.O -> 0 | M.S k -> 1 + int_of_nat k
let n_instances () = M.mul M.kdepth M.ntrees
let bits_of_string (s : string) : bool list =
  if s = "-" then [] else List.init (String.length s) (fun i -> s.[i] = '1')
let tt_init_of_hex (h : string) : M.n list list = M.chunks M.ntrees M.lB2 (C.bytes_of_hex h)
let out_of (r : (M.n list list * M.pprf_msg) list) : string list =
  [C.hex_of_bytes (M.msgs_to_bytes (List.map snd r)); C.hex_of_bytes (M.sender_seed_bytes r)]

let init () =
  (* build sid sender_keys(256*64 bytes) t_tilda_init(64*64 bytes) -> message bytes, SenderOTSeed bytes *)
  Proto.register "c06.build" (fun args -> match args with
    | [sid; sk; tt] ->
      let r = M.build_pprf S.transcript (C.bytes_of_hex sid)
          (M.sender_keys_of_bytes (n_instances ()) (C.bytes_of_hex sk)) (tt_init_of_hex tt) in
      out_of r
    | _ -> failwith "c06.build: arity");
  (* eval sid choice_bits recv_keys(256*32 bytes) message -> "ok" ReceiverOTSeed bytes | "err" code *)
  Proto.register "c06.eval" (fun args -> match args with
    | [sid; cb; rk; msg] ->
      let ms = M.msgs_of_bytes M.kdepth M.ntrees (C.bytes_of_hex msg) in
      (match M.eval_pprf S.transcript (C.bytes_of_hex sid) (C.bytes_of_hex cb)
               (M.recv_keys_of_bytes (n_instances ()) (C.bytes_of_hex rk)) ms with
       | M.Val r -> ["ok"; C.hex_of_bytes (M.recv_seed_bytes r)]
       | M.Err e -> ["err"; C.hex_of_n e]
       | M.Panic p -> ["panic"; C.hex_of_n p])
    | _ -> failwith "c06.eval: arity");
  (* adv sid sender_keys t_tilda_init tree level side delta guessbits -> message bytes, SenderOTSeed bytes *)
  Proto.register "c06.adv" (fun args -> match args with
    | [sid; sk; tt; tree; level; side; delta; g] ->
      let r = M.adv_pprf S.transcript (C.bytes_of_hex sid)
          (M.sender_keys_of_bytes (n_instances ()) (C.bytes_of_hex sk)) (tt_init_of_hex tt)
          (nat_of_int (int_of_string tree)) (nat_of_int (int_of_string level)) (side = "1")
          (C.bytes_of_hex delta) (bits_of_string g) in
      out_of r
    | _ -> failwith "c06.adv: arity");
  (* constants the harness compares with the real ones *)
  Proto.register "c06.consts" (fun _ ->
    [string_of_int (int_of_nat M.kdepth); string_of_int (int_of_nat M.ntrees); string_of_int (int_of_nat M.lB2)])
