(* Driver of the extracted Coq models; see proto.ml for the line protocol. *)
let () =
  Drv_c01.init (); Drv_c02.init (); Drv_c03.init (); Drv_c04.init (); Drv_c05.init (); Drv_c06.init ();
  Drv_c09.init (); Drv_c10.init (); Drv_c11.init (); Drv_c12.init (); Drv_c14.init (); Drv_c18.init ();
  Proto.main_loop ()
