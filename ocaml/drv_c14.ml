(* C14: Schnorr proof model (coq/Model/Dlog.v) *)
module M = M_c14
module S = Proto.Std (M)
module C = S.C
let q () = C.z_of_hex "FFFFFFFFFFFFFFFFFFFFFFFFFFFFFFFEBAAEDCE6AF48A03BBFD25E8CD0364141"

let init () =
  (* prove x B pre r -> t s *)
  Proto.register "c14.prove" (fun args -> match args with
    | [x; b; pre; r] ->
      let g = S.group "k" in
      let ((t, s), _) = M.prove g S.transcript (q ()) (C.z_of_hex x) b (S.parse_tops pre) (C.z_of_hex r) in
      [t; C.hex_of_z s]
    | _ -> failwith "c14.prove: arity");
  (* verify t s y B pre -> 0/1 *)
  Proto.register "c14.verify" (fun args -> match args with
    | [t; s; y; b; pre] ->
      let g = S.group "k" in
      let (ok, _) = M.verify g S.transcript (q ()) (t, C.z_of_hex s) y b (S.parse_tops pre) in
      [if ok then "1" else "0"]
    | _ -> failwith "c14.verify: arity");
  Proto.register "c14.ctx" (fun args -> match args with
    | [sid; party; action; label] ->
      [S.ser_tops (M.new_dlog_proof (C.bytes_of_hex sid) (C.n_of_hex party) (C.bytes_of_hex action) (C.bytes_of_hex label))]
    | _ -> failwith "c14.ctx: arity")
