(* C05: Endemic base OT model (coq/Model/Endemic.v).
   Lists travel as comma separated hex items inside one argument; a message is 512 items of 33 bytes
   (r_list[0][0], r_list[0][1], r_list[1][0], ... = the #[repr(C)] byte image). *)
module M = M_c05
module S = Proto.Std (M)
module C = S.C

let split_list (s : string) : string list =
  if s = "-" || s = "" then [] else String.split_on_char ',' s
let join_list (l : string list) : string = if l = [] then "-" else String.concat "," l

let rec pairs (l : 'a list) : ('a * 'a) list = match l with
  | a :: b :: r -> (a, b) :: pairs r
  | [] -> []
  | [_] -> failwith "c05: odd number of items"

let msg_of_arg (s : string) = pairs (List.map C.bytes_of_hex (split_list s))
let arg_of_msg (m : (M.n list * M.n list) list) : string =
  join_list (List.concat (List.map (fun (a, b) -> [C.hex_of_bytes a; C.hex_of_bytes b]) m))

(* the transcript oracle, instrumented: longest chain of challenges on one transcript (the retry
   loop of h_function); it must stay below the model's fuel *)
let max_chain = ref 0
let transcript (ops : M.top list) : M.n list =
  let n = List.fold_left (fun acc o -> match o with M.TChallenge (_, _) -> acc + 1 | _ -> acc) 0 ops in
  if n > !max_chain then max_chain := n;
  S.transcript ops

(* the model's fuel (a unary nat) as an int *)
let fuel () : int =
  let rec go (k : M.nat) (acc : int) = match k with M.O -> acc | M.S r -> go r (acc + 1) in
  go M.h_fuel 0

let init () =
  (* recv_new sid bits tas ros -> msg1 maxchain *)
  Proto.register "c05.recv_new" (fun args -> match args with
    | [sid; bits; tas; ros] ->
      max_chain := 0;
      let g = S.group "k" in
      let (_, msg1) = M.eot_receiver_new g transcript (C.bytes_of_hex sid) (C.bytes_of_hex bits)
          (List.map C.z_of_hex (split_list tas)) (split_list ros) in
      [arg_of_msg msg1; string_of_int !max_chain; string_of_int (fuel ())]
    | _ -> failwith "c05.recv_new: arity");
  (* send sid msg1 tbs -> msg2 verdict keys maxchain      (keys: 512 items rho_0, rho_1 per instance) *)
  Proto.register "c05.send" (fun args -> match args with
    | [sid; msg1; tbs] ->
      max_chain := 0;
      let g = S.group "k" in
      let (msg2, res) = M.eot_sender_process g transcript (C.bytes_of_hex sid) (msg_of_arg msg1)
          (pairs (List.map C.z_of_hex (split_list tbs))) in
      (match res with
       | M.Val keys -> [arg_of_msg msg2; "ok"; arg_of_msg keys; string_of_int !max_chain]
       | M.Err e -> [arg_of_msg msg2; "err" ^ C.hex_of_n e; "-"; string_of_int !max_chain]
       | M.Panic s -> [arg_of_msg msg2; "panic" ^ C.hex_of_n s; "-"; string_of_int !max_chain])
    | _ -> failwith "c05.send: arity");
  (* recv_process bits tas msg2 -> verdict bits keys *)
  Proto.register "c05.recv_process" (fun args -> match args with
    | [bits; tas; msg2] ->
      let g = S.group "k" in
      let st = { M.rs_bits = C.bytes_of_hex bits; M.rs_ta = List.map C.z_of_hex (split_list tas) } in
      (match M.eot_receiver_process g transcript st (msg_of_arg msg2) with
       | M.Val (b, keys) -> ["ok"; C.hex_of_bytes b; join_list (List.map C.hex_of_bytes keys)]
       | M.Err e -> ["err" ^ C.hex_of_n e; "-"; "-"]
       | M.Panic s -> ["panic" ^ C.hex_of_n s; "-"; "-"])
    | _ -> failwith "c05.recv_process: arity")
