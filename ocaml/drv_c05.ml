(* C05 driver section: not implemented yet *)
let init () = ()
