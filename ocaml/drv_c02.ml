(* C02 driver section: not implemented yet *)
let init () = ()
