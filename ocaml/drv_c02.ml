(* C02 driver section: C02 (tampered / adversarial random-VOLE replies) runs the same extracted model as C01;
   its functions (c01.new, c01.recv, c01.adv, c01.ot_new, c01.ot_recv, c01.ot_adv, c01.has) are registered by
   drv_c01.ml. *)
let init () = ()
