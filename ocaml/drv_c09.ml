(* C09 / C10: verifiable RSA encryption model (coq/Model/VEnc.v).
   Oracles answered by harness/src/c09.rs: rsa_n / rsa_enc / rsa_dec (real `rsa` crate, keys named by
   an id), the edwards25519 group (eadd/eneg/esmul/egen/eid/edec, curve25519-dalek), kdec33
   (GroupEncoding::from_bytes of k256); kadd/kneg/ksmul/kgen/kid and sha256 are standard oracles.
   Proof objects stay on this side in a handle table. *)
module M = M_c09
module C = Proto.Conv (M)
open M

let one name args = match Proto.ask (name :: args) with [x] -> x | _ -> failwith (name ^ ": bad answer")

let rec nat_of_int (i : int) : nat = if i <= 0 then O else S (nat_of_int (i - 1))
let int_of_nat (n : nat) : int = let rec go n acc = match n with O -> acc | S k -> go k (acc + 1) in go n 0

let q_k = lazy (C.z_of_hex "FFFFFFFFFFFFFFFFFFFFFFFFFFFFFFFEBAAEDCE6AF48A03BBFD25E8CD0364141")
let q_e = lazy (C.z_of_hex "1000000000000000000000000000000014DEF9DEA2F79CD65812631A5CF5D3ED")

let zeros33 = String.make 66 '0'

(* secp256k1: elements are the hex of the SEC1 compressed encoding ("00" = identity) as used by the standard
   oracles; GroupEncoding of k256 writes the identity as 33 zero bytes. *)
let group_k : string group_ops Lazy.t = lazy {
  g_add = (fun a b -> one "kadd" [a; b]);
  g_neg = (fun a -> one "kneg" [a]);
  g_smul = (fun k a -> one "ksmul" [C.hex_of_z k; a]);
  g_gen = one "kgen" [];
  g_id = one "kid" [];
  g_eqb = (fun a b -> a = b);
  g_enc = (fun a -> C.bytes_of_hex (if a = "00" then zeros33 else a));
  g_dec = (fun l -> match Proto.ask ["kdec33"; C.hex_of_bytes l] with ["1"; p] -> Some p | _ -> None);
}
(* edwards25519: elements are the hex of the 32-byte compressed encoding *)
let group_e : string group_ops Lazy.t = lazy {
  g_add = (fun a b -> one "eadd" [a; b]);
  g_neg = (fun a -> one "eneg" [a]);
  g_smul = (fun k a -> one "esmul" [C.hex_of_z k; a]);
  g_gen = one "egen" [];
  g_id = one "eid" [];
  g_eqb = (fun a b -> a = b);
  g_enc = (fun a -> C.bytes_of_hex a);
  g_dec = (fun l -> match Proto.ask ["edec"; C.hex_of_bytes l] with ["1"; p] -> Some p | _ -> None);
}

type curve = { ops : string group_ops; q : z; psize : nat; repr : z -> n list; from_repr : n list -> z option;
               point : string -> string }

let curve (c : string) : curve = match c with
  | "k" -> let q = Lazy.force q_k in
    { ops = Lazy.force group_k; q; psize = nat_of_int 33; repr = repr_be; from_repr = from_repr_be q;
      point = (fun h -> if h = zeros33 then "00" else h) }
  | "e" -> let q = Lazy.force q_e in
    { ops = Lazy.force group_e; q; psize = nat_of_int 32; repr = repr_le; from_repr = from_repr_le q;
      point = (fun h -> h) }
  | _ -> failwith "unknown curve"

let sha256 (b : n list) : n list = C.bytes_of_hex (one "sha256" [C.hex_of_bytes b])

(* RSA keys are named by an id known to the harness *)
let ncache : (string, z) Hashtbl.t = Hashtbl.create 8
let rsa_n (id : string) : z =
  match Hashtbl.find_opt ncache id with
  | Some v -> v
  | None -> let v = C.z_of_hex (one "rsa_n" [id]) in Hashtbl.replace ncache id v; v
let rsa_enc (seed : n list) (pk : string) (m : n list) : n list option =
  match Proto.ask ["rsa_enc"; C.hex_of_bytes seed; pk; C.hex_of_bytes m] with
  | ["1"; c] -> Some (C.bytes_of_hex c) | _ -> None
let rsa_dec (sk : string) (c : n list) : n list option =
  match Proto.ask ["rsa_dec"; sk; C.hex_of_bytes c] with
  | ["1"; m] -> Some (C.bytes_of_hex m) | _ -> None

let handles : (int, vproof) Hashtbl.t = Hashtbl.create 64
let next = ref 0
let stash p = incr next; Hashtbl.replace handles !next p; string_of_int !next
let fetch h = match Hashtbl.find_opt handles (int_of_string h) with Some p -> p | None -> failwith "bad proof handle"

let out_unit (o : unit outcome) = match o with
  | Val () -> ["V"] | Err e -> ["E"; string_of_int (C.int_of_n e)] | Panic s -> ["P"; string_of_int (C.int_of_n s)]
let out_proof (o : vproof outcome) = match o with
  | Val p -> ["V"; stash p] | Err e -> ["E"; string_of_int (C.int_of_n e)] | Panic s -> ["P"; string_of_int (C.int_of_n s)]

let init () =
  Proto.register "c09.reset" (fun _ -> Hashtbl.reset handles; Hashtbl.reset ncache; ["ok"]);
  (* encrypt curve pk x label sp|none seed r0,r1,... *)
  Proto.register "c09.encrypt" (fun args -> match args with
    | [c; pk; x; label; sp; seed; tape] ->
      let cv = curve c in
      let rs = Array.of_list (List.map C.z_of_hex (if tape = "-" then [] else String.split_on_char ',' tape)) in
      let tape_fn (i : nat) : z = let k = int_of_nat i in if k < Array.length rs then rs.(k) else Z0 in
      (* the parameter travels as hex at its full usize width *)
      let sp_opt = if sp = "none" then None else Some (C.n_of_hex sp) in
      out_proof (encrypt_with_proof_usize cv.ops cv.q cv.repr sha256 rsa_n rsa_enc (C.z_of_hex x) pk
                   (C.bytes_of_hex label) sp_opt (C.bytes_of_hex seed) tape_fn)
    | _ -> failwith "c09.encrypt: arity");
  Proto.register "c09.tobytes" (fun args -> match args with
    | [c; h] ->
      (match to_bytes (curve c).repr (fetch h) with
       | Val b -> ["V"; C.hex_of_bytes b] | Err e -> ["E"; string_of_int (C.int_of_n e)]
       | Panic s -> ["P"; string_of_int (C.int_of_n s)])
    | _ -> failwith "c09.tobytes: arity");
  Proto.register "c09.frombytes" (fun args -> match args with
    | [c; d] -> let cv = curve c in out_proof (from_bytes cv.psize cv.from_repr (C.bytes_of_hex d))
    | _ -> failwith "c09.frombytes: arity");
  (* verify curve handle Q pk label *)
  Proto.register "c09.verify" (fun args -> match args with
    | [c; h; qp; pk; label] ->
      let cv = curve c in
      out_unit (verify cv.ops cv.repr sha256 rsa_n rsa_enc (fetch h) (cv.point qp) pk (C.bytes_of_hex label))
    | _ -> failwith "c09.verify: arity");
  (* decrypt curve handle Q sk label *)
  Proto.register "c09.decrypt" (fun args -> match args with
    | [c; h; qp; sk; label] ->
      let cv = curve c in
      (match decrypt cv.ops cv.q cv.from_repr sha256 rsa_n rsa_dec (fetch h) (cv.point qp) sk (C.bytes_of_hex label) with
       | Val x -> ["V"; C.hex_of_z x] | Err e -> ["E"; string_of_int (C.int_of_n e)]
       | Panic s -> ["P"; string_of_int (C.int_of_n s)])
    | _ -> failwith "c09.decrypt: arity");
  (* small pure functions, compared on their own *)
  Proto.register "c09.modinv" (fun args -> match args with
    | [g; n] -> (match mod_inverse (C.z_of_hex g) (C.z_of_hex n) with Some v -> ["1"; C.hex_of_z v] | None -> ["0"])
    | _ -> failwith "c09.modinv: arity");
  Proto.register "c09.bu" (fun args -> match args with
    | [b] -> let v = bu_from_be (C.bytes_of_hex b) in [C.hex_of_z v; C.hex_of_bytes (bu_to_be v)]
    | _ -> failwith "c09.bu: arity")
