(* C09 driver section: not implemented yet *)
let init () = ()
