(* C11 driver section: not implemented yet *)
let init () = ()
