(* Line protocol between the extracted Coq models and the Rust harness (which is the parent
   process):   harness -> driver : "RUN <fn> <arg> ..."
               driver -> harness : "Q <oracle> <arg> ..."   harness -> driver : "A <res> ..."
               driver -> harness : "R <res> ..."   (or "E <message>")
   All byte strings travel as hex ("-" for the empty string), numbers as hex without prefix
   (negative numbers with a leading '~'). *)

module type NUMS = sig
  type positive = XI of positive | XO of positive | XH
  type n = N0 | Npos of positive
  type z = Z0 | Zpos of positive | Zneg of positive
end

let hex_of_string (s : string) : string =
  if s = "" then "-" else begin
    let b = Buffer.create (2 * String.length s) in
    String.iter (fun c -> Buffer.add_string b (Printf.sprintf "%02x" (Char.code c))) s;
    Buffer.contents b
  end

let hexval c = match c with
  | '0'..'9' -> Char.code c - 48
  | 'a'..'f' -> Char.code c - 87
  | 'A'..'F' -> Char.code c - 55
  | _ -> failwith "bad hex digit"

let ask (parts : string list) : string list =
  print_string (String.concat " " ("Q" :: parts));
  print_newline ();
  let line = input_line stdin in
  match String.split_on_char ' ' line with
  | "A" :: rest -> rest
  | _ -> failwith ("protocol: expected answer, got " ^ line)

module Conv (M : NUMS) = struct
  open M
  (* small ints *)
  let rec pos_of_int (i : int) : positive =
    if i <= 1 then XH else if i land 1 = 1 then XI (pos_of_int (i lsr 1)) else XO (pos_of_int (i lsr 1))
  let n_of_int (i : int) : n = if i = 0 then N0 else Npos (pos_of_int i)
  let rec int_of_pos (p : positive) : int =
    match p with XH -> 1 | XO q -> 2 * int_of_pos q | XI q -> 2 * int_of_pos q + 1
  let int_of_n (x : n) : int = match x with N0 -> 0 | Npos p -> int_of_pos p

  (* bytes = list n  <->  hex *)
  let bytes_of_hex (h : string) : n list =
    if h = "-" || h = "" then [] else begin
      let len = String.length h / 2 in
      let rec go i acc = if i < 0 then acc
        else go (i - 1) (n_of_int (16 * hexval h.[2*i] + hexval h.[2*i+1]) :: acc) in
      go (len - 1) []
    end
  let hex_of_bytes (l : n list) : string =
    if l = [] then "-" else begin
      let b = Buffer.create 64 in
      List.iter (fun x -> Buffer.add_string b (Printf.sprintf "%02x" (int_of_n x))) l;
      Buffer.contents b
    end

  (* big numbers <-> hex (most significant digit first) *)
  let pos_of_hex (h : string) : positive option =
    (* bits, least significant first *)
    let bits = ref [] in
    String.iter (fun c -> let v = hexval c in
      bits := (v land 1 = 1) :: (v land 2 = 2) :: (v land 4 = 4) :: (v land 8 = 8) :: !bits) h;
    (* !bits is LSB first: last hex digit processed last -> its bits are at the head. *)
    let lsb_first = !bits in
    (* strip high zeros *)
    let rec strip l = match l with false :: r -> strip r | _ -> l in
    let msb_first = strip (List.rev lsb_first) in
    match msb_first with
    | [] -> None
    | _ :: rest -> Some (List.fold_left (fun acc b -> if b then XI acc else XO acc) XH rest)
  let n_of_hex h = match pos_of_hex h with None -> N0 | Some p -> Npos p
  let z_of_hex h =
    if String.length h > 0 && h.[0] = '~' then
      (match pos_of_hex (String.sub h 1 (String.length h - 1)) with None -> Z0 | Some p -> Zneg p)
    else (match pos_of_hex h with None -> Z0 | Some p -> Zpos p)
  let hex_of_pos (p : positive) : string =
    let rec bits p acc = match p with XH -> true :: acc | XO q -> bits q (false :: acc) | XI q -> bits q (true :: acc) in
    (* bits returns msb first *)
    let rec lsb p = match p with XH -> [true] | XO q -> false :: lsb q | XI q -> true :: lsb q in
    let l = Array.of_list (lsb p) in
    let nb = Array.length l in
    let nd = (nb + 3) / 4 in
    let b = Buffer.create nd in
    for d = nd - 1 downto 0 do
      let v = ref 0 in
      for k = 3 downto 0 do
        let i = 4 * d + k in
        v := 2 * !v + (if i < nb && l.(i) then 1 else 0)
      done;
      Buffer.add_char b "0123456789abcdef".[!v]
    done;
    ignore bits;
    Buffer.contents b
  let hex_of_n x = match x with N0 -> "0" | Npos p -> hex_of_pos p
  let hex_of_z x = match x with Z0 -> "0" | Zpos p -> hex_of_pos p | Zneg p -> "~" ^ hex_of_pos p
end

(* registry of runnable model functions *)
let table : (string, string list -> string list) Hashtbl.t = Hashtbl.create 64
let register name f = Hashtbl.replace table name f

let main_loop () =
  try
    while true do
      let line = input_line stdin in
      match String.split_on_char ' ' line with
      | "RUN" :: name :: args ->
        (match Hashtbl.find_opt table name with
         | None -> print_string ("E unknown function " ^ name); print_newline ()
         | Some f ->
           (try
              let res = f args in
              print_string (String.concat " " ("R" :: res)); print_newline ()
            with ex -> print_string ("E exception " ^ Printexc.to_string ex); print_newline ()))
      | ["QUIT"] -> exit 0
      | _ -> print_string ("E bad request " ^ line); print_newline ()
    done
  with End_of_file -> ()

(* Standard oracles shared by the models that import Lib/Oracle.v.  Group elements travel as the
   hex of their compressed encoding; the harness computes with the real k256. *)
module type MODEL = sig
  include NUMS
  type top =
  | TInit of n list
  | TAppend of n list * n list
  | TAppendU64 of n list * n
  | TChallenge of n list * n
  type 'g group_ops = { g_add : ('g -> 'g -> 'g); g_neg : ('g -> 'g);
                        g_smul : (z -> 'g -> 'g); g_gen : 'g; g_id : 'g;
                        g_eqb : ('g -> 'g -> bool); g_enc : ('g -> n list);
                        g_dec : (n list -> 'g option) }
end

module Std (M : MODEL) = struct
  module C = Conv (M)
  open M
  let ser_top (t : top) : string = match t with
    | TInit l -> "I:" ^ C.hex_of_bytes l
    | TAppend (l, d) -> "M:" ^ C.hex_of_bytes l ^ ":" ^ C.hex_of_bytes d
    | TAppendU64 (l, v) -> "U:" ^ C.hex_of_bytes l ^ ":" ^ C.hex_of_n v
    | TChallenge (l, n) -> "C:" ^ C.hex_of_bytes l ^ ":" ^ C.hex_of_n n
  (* transcript oracle: the whole history goes to the harness, which replays it on a real merlin transcript *)
  let transcript (ops : top list) : n list =
    match ask ["H"; String.concat "," (List.map ser_top ops)] with
    | [h] -> C.bytes_of_hex h
    | _ -> failwith "H: bad answer"
  let one name args = match ask (name :: args) with [x] -> x | _ -> failwith (name ^ ": bad answer")
  (* the group named [pfx] ("k" = secp256k1, "e" = edwards25519) *)
  let group (pfx : string) : string group_ops = {
    g_add = (fun a b -> one (pfx ^ "add") [a; b]);
    g_neg = (fun a -> one (pfx ^ "neg") [a]);
    g_smul = (fun k a -> one (pfx ^ "smul") [C.hex_of_z k; a]);
    g_gen = one (pfx ^ "gen") [];
    g_id = one (pfx ^ "id") [];
    g_eqb = (fun a b -> a = b);
    g_enc = (fun a -> C.bytes_of_hex a);
    g_dec = (fun l -> match ask [pfx ^ "dec"; C.hex_of_bytes l] with
        | ["1"; p] -> Some p | _ -> None);
  }
  let ser_tops ops = String.concat "," (List.map ser_top ops)
  let parse_top (s : string) : top =
    match String.split_on_char ':' s with
    | ["I"; l] -> TInit (C.bytes_of_hex l)
    | ["M"; l; d] -> TAppend (C.bytes_of_hex l, C.bytes_of_hex d)
    | ["U"; l; v] -> TAppendU64 (C.bytes_of_hex l, C.n_of_hex v)
    | ["C"; l; v] -> TChallenge (C.bytes_of_hex l, C.n_of_hex v)
    | _ -> failwith ("bad transcript op " ^ s)
  let parse_tops (s : string) : top list =
    if s = "-" || s = "" then [] else List.map parse_top (String.split_on_char ',' s)
end
