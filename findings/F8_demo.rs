use ff::{Field, PrimeField};
use group::GroupEncoding;
use k256::{ProjectivePoint, Scalar};
use rand::{Rng, SeedableRng};
use rand_chacha::ChaCha20Rng;
use rsa::RsaPrivateKey;
use sha2::{Digest, Sha256};
use sl_verifiable_enc::*;
#[test]
fn f8() {
    let mut rng = ChaCha20Rng::from_seed([7; 32]);
    let x = Scalar::generate_vartime(&mut rng);
    let q = ProjectivePoint::GENERATOR * x;
    let sk = RsaPrivateKey::new(&mut rng, 1024).unwrap();
    let pk = sk.to_public_key();
    let mut rng2 = rng.clone();
    let p: VerifiableRsaEncryption<ProjectivePoint> =
        VerifiableRsaEncryption::encrypt_with_proof(&x, &pk, b"l", None, &mut rng).unwrap();
    let _seed: [u8; 32] = rng2.gen();
    let rs: Vec<Scalar> = (0..128).map(|_| Scalar::random(&mut rng2)).collect();
    let bytes = p.to_bytes();
    let enc = 128usize;
    let slot = 33 + 2 * enc;
    let mut found = false;
    for g in 0..16u8 {
        let mut b = bytes.clone();
        // garbage in the enc_x_r of slot 0
        let off = 40 + 33;
        for k in 0..enc { b[off + k] = g.wrapping_mul(31).wrapping_add(k as u8) | 1; }
        b[off] = 0;
        // recompute the challenge and the openings
        let mut h = Sha256::new();
        h.update(b"Verified-RSA-encryption");
        h.update(q.to_bytes());
        h.update(&b[40..40 + 128 * slot]);
        h.update(b"l");
        let ch: [u8; 32] = h.finalize().into();
        for i in 0..128 {
            let bit = (ch[i >> 3] >> (i & 7)) & 1;
            let s = if bit == 1 { x + rs[i] } else { rs[i] };
            let o = 40 + 128 * slot + 32 * i;
            b[o..o + 32].copy_from_slice(s.to_repr().as_ref());
        }
        let p2: VerifiableRsaEncryption<ProjectivePoint> = VerifiableRsaEncryption::from_bytes(&b).unwrap();
        let v = p2.verify(&q, &pk, b"l").is_ok();
        let d = p2.decrypt(&q, &sk, b"l");
        println!("g={g} bit0={} verify={v} decrypt={:?}", ch[0] & 1, d.as_ref().map(|_| "ok"));
        if v && d.is_err() { found = true; }
    }
    assert!(!found, "accepted proof failed to decrypt");
}
