"""C03: SoftSpoken OT extension delivers exactly the chosen message. Mode B: extracted model with the real merlin oracle."""
import vlib


def check(run, replay=None):
    vlib.modeb_check(
        run, "C03", "c03", ["Extract/ExtrC03.vo"],
        "SoftSpokenOTReceiver::process / SoftSpokenOTSender::process / generate_all_but_one_seed_ot",
        rule=("choice vectors {all-zero, all-one, single bit, alternating 0x55/0xaa, first+last bit, random} x session ids of "
              "length 0/1/32/100 x seed sets {generate_all_but_one_seed_ot with a seeded rng; hand-built with punctured indices "
              "all 0, all 15, alternating 0/15, i mod 16, random; the punctured slot of the extension sender's copy filled with "
              "junk} x tapes (random / all-zero) x Round1Output buffer {Default, reused non-zero}; per case the whole "
              "first-round message (9232 bytes), the recorded choices and all of v_x, v_0, v_1 (147 KiB) are compared byte for "
              "byte with the extracted model run on the same tape with the real merlin behind H; the seed generator is compared "
              "on a replica rng tape; non-trivial = distinct (seed kind, choice kind, sid length, buffer) combinations Oracle-only sweep: all-zero / all-one choice vectors with all-zero / all-one extension tapes, special leaf keys (0^256, 1^256, equal neighbours) on non-punctured leaves."),
        assumptions=["merlin framing is injective in (label, message) sequences (the model's oracle input is the structured operation list)",
                     "the field multiplication of the model is gf_spec_bytes; its equality with binary_field_multiply_gf_2_128 is C19",
                     "'the other message differs' is proved as: equal => packed_nabla = 0 (all punctured indices 0) or an explicit "
                     "collision of the randomisation hash on two distinct queries (DESIGN.md 3.3); the probability is not mechanised",
                     "challenge buffers are normalised by fitb (identity on n bytes) so that the theorems hold for every function H"],
        replay=replay)
