"""C08: Paillier ciphertext add / scalar mul are homomorphic modulo N; mul_vartime = mul.
Theorems: coq/Props/C08.v.  Tie T2 as for C07 (harness/src/c08.rs, Corr/C08.v)."""
import paillier_common as pc


def nontrivial(g, o):
    tag = o[0]
    if tag in ("add",):
        return o[1] != "1" and o[2] != "1"
    if tag in ("mul", "mulvt"):
        return o[1] != "1" and o[2] not in ("0", "1")
    return o[1] not in ("0", "1")


def check(run, replay=None):
    rule = {
        "oracle": "add = c1*c2 mod N^2, mul = c^k mod N^2, mul_vartime = mul, decrypt and decrypt_fast of the "
                  "results = (m1+m2) mod N and (k*m1) mod N",
        "text": ("keys as in C07. In-harness oracle: every (m1,m2,k) in [0,N)^3 for the toy keys with N <= 35 "
                 "(as all (m1,m2) pairs for add and all (m1,k) pairs for mul; 512-bit configuration, thorough: all four), "
                 "boundary pairs (m1+m2 = N, N-1+N-1, N-1+1, k*m1 just above a multiple of N, k in {0,1,N-1}, "
                 "2*(N+1)/2) and random pairs under every toy, mid-size and key-sized key in all four configurations; "
                 "scalars with limb structure (2^(64j) and neighbours, cleared interior limbs, a single non-zero limb, top bit set); "
                 "the neutral ciphertext 1 = Enc(0;1) = c^0 on either side of add, N+1, N^2-1; "
                 "chains: a pool of ciphertexts whose operands are results of earlier add / mul / mul_vartime calls (depth up to 32 for toy "
                 "keys, 4-8 for key-sized keys; scalars N-1, (N+1)/2, 2, random), each call against the closed forms and both "
                 "decryptions of the carried plaintext -- the executable side of hom_tree / add_hom_any_ciphertext / "
                 "mul_hom_any_ciphertext; "
                 "both decryption paths; mul vs mul_vartime ciphertext equality. A sample goes to the Coq model. "
                 "non-trivial = distinct in-Coq record whose operands are not 0/1"),
    }
    pc.run_check(run, replay, "C08", "c08",
                 "model = real implementation on every sampled record (add, mul, mul_vartime, decrypt, decrypt_fast)",
                 rule, nontrivial)
