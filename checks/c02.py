"""C02: a cheating or corrupted random-VOLE reply is caught up to the guessing bound (both variants).
Mode B: fault enumeration and a calibrated adversarial sender against the real receivers; the extracted
model's verdicts / adv_sender messages compared on a sample."""
import vlib


def check(run, replay=None):
    vlib.modeb_check(
        run, "C02", "c02", ["Extract/ExtrC01.vo"],
        "rvole::RVOLEReceiver::process / rvole_ot_variant::RVOLEReceiver::process (Err / Ok(d))",
        rule=("per variant one honest session (random 32-byte session id, random inputs; beta read from the receiver state "
              "bytes at offset 32) plus a cross-session and a cross-run donor session. Probes against the REAL receiver: "
              "3 fields x 64 random single-bit flips (+64 in the embedded base-OT replies), 12 byte overwrites, a_tilde row "
              "swap / entry swap / row overwrite at a bit-0 and a bit-1 position, zeroed fields, eta<->mu_hash swap, field-wise "
              "and whole-message splices from the other session and the other run, base-OT reply swaps and point "
              "substitutions on the read / unread side, undecodable points; 48 calibrated deviations per variant (1-3 gadget "
              "positions incl. 0, 255, 256 and the LAST one, replacement inputs a+1 / 0 / -a-1 / random, guesses all right / "
              "first wrong / all wrong / alternating) built by an adversary implemented in the harness with merlin+k256. "
              "Oracle: honest accepted; corrupted => Err or c+d=a*b intact (mu_hash flips and undecodable points: always "
              "Err; unread-side point: always accepted); adversary accepted iff every guess right; accepted shares = "
              "d + sum_{beta_j=1} g_j*Delta_j (zero bits unaffected). Thorough: every bit of the 49,248-byte message of the "
              "OT-extension variant, 1-in-16 bits (all of eta/mu_hash, 1-in-64 of the OT replies) for the base-OT variant, "
              "2100 deviations. Model: on one probe of every kind and on a sample of the deviations the extracted "
              "receiver's verdict and shares equal the real ones, and the model's adv_sender message is byte-identical to "
              "the harness adversary's. evaluations = real-receiver probes + model evaluations; non-trivial = non-honest "
              "messages Also: a masked value re-encoded in transit with the non-canonical 32-byte encoding t + q of the same scalar (sender input chosen so that the value is small), and compensating alterations (same XOR mask in two / all bytes of mu_hash, eta, a_tilde rows)."),
        assumptions=["rejection sentences are proved as 'accepted => mu-hash collision on two different item lists / "
                     "explicit linear equations on the fresh theta' (DESIGN.md 3.3); the probability of these oracle "
                     "coincidences is not mechanised",
                     "rvole_selective_failure: theta'.Delta_j != 0 at attacked positions and collision-freeness of the mu "
                     "hash on the two explicit item lists are premises (single-point oracle events otherwise)",
                     "0 < q <= 2^256; OT correlation of the OT layer (C03 / C05) as in C01",
                     "base-OT variant: tampering of the embedded base-OT replies is covered by enumeration against the real "
                     "receiver and by model correspondence, not by a theorem of this property (see C05 for the key-level "
                     "statements)"],
        replay=replay)
