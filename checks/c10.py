"""C10: verifiable RSA encryption -- acceptance implies recoverability.
Mode B: the extracted model of C09 (coq/Model/VEnc.v) run on altered / adversarial serialised proofs."""
import vlib


def check(run, replay=None):
    vlib.modeb_check(
        run, "C10", "c10", ["Extract/ExtrC09.vo"],
        "VerifiableRsaEncryption::{from_bytes, verify, decrypt}",
        rule=("per curve: one honest 128-slot RSA-1024 proof (x != 0); byte alterations stratified over the wire fields (all 32 "
              "seed bytes, all 8 size bytes, 200 positions each in commitments / enc_x_r / enc_r / opened scalars; thorough: every "
              "byte position), each altered by +1 and by a random value, against the REAL from_bytes + verify (+ decrypt), a "
              "stratified sample also through the model; every context substitution (5 points, 4-5 labels, foreign public key, "
              "foreign private key, a 129-slot proof re-framed as 128 slots + label); adversarial provers built through the wire "
              "format: k = 1..8 corrupted unopened ciphertexts with re-derived openings (ground until accepted, and one "
              "rejected attempt), six kinds of garbage, all slots corrupted, wrong commitments, wrong-side openings, swapped "
              "ciphertexts, undecodable / compact-tag points, non-canonical scalars, ciphertexts for another secret, short "
              "nonces, x = 0 with garbage, truncated/extended/re-sized frames incl. 256/257 slots. Compared: from_bytes class "
              "and error, verify result, decrypt result. Oracle: honest => accepted and decrypts to x; altered or foreign "
              "context => rejected; accepted => decrypt = Ok(y) with y*G = Q; no panic. A second base proof with a non-default parameter (141 slots quick / 256 thorough) is altered only in slots and opened scalars >= 128, in its size words, and by rewriting its slot count to smaller permitted values."),
        trusted_extra=["harness/src/c09.rs + c10.rs: real rsa / curve25519-dalek / k256 behind the model's oracles; the "
                       "adversaries' own wire codec and challenge computation in c10.rs; ocaml/drv_c09.ml"],
        assumptions=["RSA PKCS#1 v1.5 correctness for the key pair is a hypothesis (rsa_pair_ok)",
                     "gcd(label_int(label), n) = 1 is a premise of the recoverability theorems",
                     "rejection of altered bytes / foreign contexts is proved as 'accept => explicit coincidence' (DESIGN.md 3.3): "
                     "per-slot relations that a challenge fixed after the alteration must hit; their probability is not mechanised",
                     "AllUnopenedBad (the prover guessed the complement of all >= 128 challenge bits) is the explicit residual "
                     "event of venc_accept_recover"],
        replay=replay)
