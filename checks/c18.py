"""C18: secret-independent control flow.  Theorems about control skeletons + the generated site inventory (T1);
correspondence: per-function coverage counters of a -C instrument-coverage build, (1) compared between executions
that differ only in secrets, (2) compared with the counts the Coq skeletons predict for every source-level site."""
import glob
import json
import os
import re
import sys
import vlib

sys.path.insert(0, os.path.join(vlib.ROOT, "tools"))
import cov  # noqa: E402

COV_TARGET = os.path.join(vlib.BUILD, "cargo-cov")
COV_BIN = os.path.join(COV_TARGET, "release", "sl-verif-harness")

SKELS = {   # op window -> [(skeleton term, inventory name)]
    "pprf_eval": [("skel_pprf_eval", "pprf_eval")],
    "ss_sender": [("(skel_ss_sender delta0)", "ss_sender_process"), ("skel_ss_transpose", "ss_transpose")],
    "rvole_receiver": [("skel_rvole_receiver", "rvole_receiver_process")],
    "rvole_sender": [("skel_rvole_sender", "rvole_sender_process"), ("(skel_ss_sender delta0)", "ss_sender_process"),
                     ("skel_ss_transpose", "ss_transpose")],
}
KIND = {"for": 1, "if": 4, "closure": 6, "try": 7, "return": 8}


def cov_build():
    env = dict(os.environ)
    env["CARGO_NET_OFFLINE"] = "true"
    env["RUSTFLAGS"] = "-C instrument-coverage --cfg sl_crypto_verif --cfg sl_cov"
    env["CARGO_TARGET_DIR"] = COV_TARGET
    env["LLVM_PROFILE_FILE"] = os.path.join(vlib.BUILD, "cov-build-%p.profraw")
    with vlib.Lock("cargo-cov"):
        rc, out = vlib.sh(["cargo", "+nightly", "build", "--release", "--offline"], cwd=os.path.join(vlib.ROOT, "harness"),
                          timeout=2400, env=env)
    for f in glob.glob(os.path.join(vlib.BUILD, "cov-build-*.profraw")):
        os.remove(f)
    return rc == 0, out


def predicted_counts(run):
    """count <skel> [] <site> for every site of every skeleton, evaluated in Coq (Model only)."""
    terms = []
    names = []
    for op, lst in SKELS.items():
        for sk, inv in lst:
            if sk not in names:
                names.append(sk)
                terms.append("map (fun s => (fst s, snd s, count %s [] s)) (sites_of %s)" % (sk, sk))
    res, log = vlib.coq_eval_terms("From SL Require Import Lib.Base Gen.Params Model.CtSkel Proofs.CtSkel.\n"
                                   "Definition delta0 := repeat 0%N 64.", terms, run.dir, name="ct_counts") \
        if False else vlib.coq_eval_terms("From SL Require Import Lib.Base Gen.Params Model.CtSkel.\n"
                                          "Definition delta0 := repeat 0%N 64.", terms, run.dir, name="ct_counts")
    if res is None:
        return None, log
    out = {}
    for sk, txt in zip(names, res):
        d = {}
        for k, o, c in re.findall(r"\((\d+)(?:%N)?,\s*(\d+)(?:%N)?,\s*(\d+)(?:%N)?\)", txt):
            d[(int(k), int(o))] = int(c)
        out[sk] = d
    return out, log


def measured_site_counts(profraw, inv_name, sites):
    info = sites[inv_name]
    pd = cov.merge(profraw)
    regs = cov.export_regions(COV_BIN, pd, os.path.join(vlib.REPO, info["file"]))
    starts = sorted(regs)
    out = {}
    for s in info["sites"]:
        if s["kind"] not in KIND:
            continue
        a = (s["anchor_line"], s["anchor_col"])
        cand = [k for k in starts if ((k[0], k[1]) >= a if s["kind"] in ("if", "return", "try") else (k[0], k[1]) > a)
                and k[0] <= info["line_end"]]
        if not cand:
            continue
        out[(KIND[s["kind"]], s["ordinal"])] = (regs[cand[0]], cand[0], s["text"])
    return out


def check(run, replay=None):
    run.trusted = vlib.BASE_TRUSTED + [
        "leakage contracts of the crypto-bigint 0.5.5 primitives (Model/CtSkel.v), read from their sources and validated by "
        "the counter comparison, not proved",
        "rustc -C instrument-coverage counters + llvm-profdata/llvm-cov of the nightly toolchain as the measuring device",
        "the site scanner of tools/gen_model.py (comment/string blanking, keyword scan) as the definition of 'source-level site'",
    ]
    run.assumptions = ["the claim is about source-level branch/loop-body execution counts as the property words it; compiler-"
                       "introduced branches, variable-latency instructions and cache effects are outside any Gallina model",
                       "valid (accepted) messages: the exit branches (`?`, return Err) are functions of message validity"]
    front = vlib.standard_front(run, "C18", gen=["Sites.v", "Params.v"], clean=(run.tier == "thorough"))
    sites = json.load(open(os.path.join(vlib.BUILD, "sites.json")))
    cok, clog = cov_build()
    run.oblige("coverage-instrumented harness builds (nightly, -C instrument-coverage)", cok)
    if not cok:
        run.violation("coverage build failed", {"theorem_or_correspondence": "coverage build", "log": clog[-800:]}, found_input=False)
        return
    nvar = 12 if run.tier == "thorough" else 5
    covdir = os.path.join(run.dir, "cov")
    for f in glob.glob(os.path.join(covdir, "*")):
        os.remove(f)
    env = dict(os.environ)
    env["LLVM_PROFILE_FILE"] = os.path.join(covdir, "_default.profraw")
    rc, out = vlib.sh([COV_BIN, "c18", "seed=%d" % run.seed, "out=" + run.dir, "variants=%d" % nvar], timeout=1800, env=env)
    if rc != 0:
        run.oblige("coverage windows ran", False)
        run.violation("coverage harness run failed", {"theorem_or_correspondence": "coverage run", "log": out[-800:]}, found_input=False)
        return
    plan = open(os.path.join(run.dir, "plan.txt")).read().split("\n")
    groups = {}
    for f in sorted(glob.glob(os.path.join(covdir, "*.profraw"))):
        base = os.path.basename(f)[:-8]
        if base.startswith("_"):
            continue
        op, v = base.rsplit("_", 1)
        groups.setdefault(op, []).append((int(v), f))
    # (2) all counters equal between secret variants
    diffs = {}
    windows = 0
    active = {}
    for op, fs in groups.items():
        fs.sort()
        c0 = cov.counters(fs[0][1])
        active[op] = sum(1 for k in c0 if cov.relevant(k) and any(c0[k]))
        for v, f in fs[1:]:
            windows += 1
            dd = cov.diff(c0, cov.counters(f))
            if dd:
                diffs.setdefault(op, []).append((v, dd))
    windows += len(groups)
    neg_ok = "paillier_mulvartime" in diffs
    run.oblige("negative control: the variable-time multiplication shows secret-dependent counters (detector is not blind)", neg_ok)
    bad_ops = {op: d for op, d in diffs.items() if op != "paillier_mulvartime"}
    run.oblige("coverage counters of every constant-time operation are equal across secret variants", not bad_ops)
    # (1) measured site counts = skeleton predictions
    pred, plog = predicted_counts(run)
    mismatches = []
    compared = 0
    if pred is None:
        run.oblige("skeleton counts evaluated in Coq", False)
        run.extra["ct_counts_error"] = plog[-800:]
    else:
        for op, lst in SKELS.items():
            if op not in groups:
                continue
            f0 = sorted(groups[op])[0][1]
            for sk, inv in lst:
                meas = measured_site_counts(f0, inv, sites)
                mult = 1
                for key, pc in pred[sk].items():
                    if key in meas:
                        compared += 1
                        if meas[key][0] != pc * mult:
                            mismatches.append({"op": op, "skeleton": sk, "site": list(key), "text": meas[key][2],
                                               "predicted": pc, "measured": meas[key][0], "region": list(meas[key][1])})
        run.oblige("measured body-execution counts of every mapped site equal the Coq skeleton's prediction", not mismatches)
    run.evaluations = windows
    run.nontrivial = sum(len(fs) - 1 for fs in groups.values())
    run.rule = ("operation windows (reset counters .. write profile) for Paillier encrypt/decrypt/decrypt_fast/mul/add/n-th root "
                "(keys of one size class incl. p<q and p>q; m in {0,1,2^200,N-1,random}; r in {1,2,N-1,random}), eval_pprf "
                "(choice bits all-zero/all-one/random), OT-extension sender, RVOLE sender/receiver (a in {0,1,q-1,random}); "
                "non-trivial = windows compared against variant 0 of the same operation Variants also carry structured secret seed values (0^256 / 1^256 at known leaves) and structured secret randomness (first draw above the group order / zero).")
    run.samples = [l for l in plan if l][:6]
    run.extra["active_functions_per_op"] = active
    run.extra["sites_compared_with_skeleton"] = compared
    run.extra["variants_per_op"] = nvar
    # ---- break protocol
    if bad_ops:
        op = sorted(bad_ops)[0]
        v, dd = bad_ops[op][0]
        run.violation("control flow depends on secrets: counters differ between two executions of %s" % op,
                      {"entry": op, "variants": [0, v], "plan": [l for l in plan if l.endswith("v=0") or (" v=0 " in l) or (" v=%d " % v) in l],
                       "differing_functions": [{"function": k, "counts_a": a, "counts_b": b} for k, a, b in dd[:5]],
                       "harness_cmd": "%s c18 seed=%d variants=%d" % (COV_BIN, run.seed, nvar)})
        return
    broken = []
    if not front["gen_ok"]:
        broken.append("T1 translator: " + front["gen_log"].strip()[-300:])
    if not front["build_ok"]:
        broken.append("proof build of Props/C18.vo (site inventory changed or skeleton no longer covers it): "
                      + front["build_log"][-500:])
    elif front["audit"] and not front["audit"]["ok"]:
        broken.append("assumption audit: " + "; ".join(front["audit"]["problems"]))
    if mismatches:
        broken.append("correspondence C18: skeleton prediction differs from measured count at %d sites, first %s" %
                      (len(mismatches), json.dumps(mismatches[0])))
    if not neg_ok:
        broken.append("negative control failed: counters of mul_vartime did not differ")
    if pred is None:
        broken.append("skeleton evaluation failed")
    if broken:
        run.violation("; ".join(b[:120] for b in broken), {"theorem_or_correspondence": broken,
                      "note": "no pair of executions with different counters was found among %d windows" % windows},
                      found_input=False)
