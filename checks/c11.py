"""C11: no peer-supplied bytes can panic a decoding or verifying entry point.
Theorems: totality (no Panic outcome) of the outcome-valued models, for all byte strings (Props/C11.v plus the
totality theorems of the area models).  Correspondence/bug search: every entry point of the four crates is fed
structured byte strings under catch_unwind (harness/src/c11.rs); any real panic is a violation with its input."""
import os
import re
import vlib


def check(run, replay=None):
    run.trusted = vlib.BASE_TRUSTED + ["catch_unwind + overflow-checks=true build of the real crates as the panic detector"]
    run.assumptions = ["panics inside dependency crates are only found if an explored input reaches them",
                       "the outcome models mark every indexing/unwrap/assert/expect site of the modelled functions as Panic "
                       "(validated by outcome-class correspondence, not by proof)"]
    front = vlib.standard_front(run, "C11", clean=(run.tier == "thorough"))
    if not front["harness_ok"]:
        run.violation("harness does not build against /repo", {"theorem_or_correspondence": "harness build",
                      "log": front["harness_log"][-800:]}, found_input=False)
        return
    args = {"seed": run.seed, "tier": run.tier, "out": run.dir}
    rpath = os.path.join(run.dir, "result.txt")
    if os.path.exists(rpath):
        os.remove(rpath)
    rc, out = vlib.harness("c11", args, timeout=3000)
    if rc != 0 or not os.path.exists(rpath):
        run.oblige("harness run", False)
        run.violation("harness run failed (rc=%s)" % rc, {"theorem_or_correspondence": "harness run", "log": out[-800:]},
                      found_input=False)
        return
    res = vlib.parse_result(rpath)
    run.evaluations = res.get("evaluations", 0)
    run.nontrivial = res.get("mutations", 0)
    run.rule = ("per entry point: the valid message, all-zero, all-one, uniform bytes, bit flips, byte sets, truncations, "
                "extensions, 0xff/zero runs, random splices, plus structured boundary values (size words of the proof format, "
                "self-consistent 257/300-slot proofs, N/p/q in {0,1,even,max}, frames of every length 0..40, paths of depth "
                "254..300, identity root); outcome classes Val/Err/Panic recorded; non-trivial = every case other than the "
                "unmodified valid message Proofs whose slot ciphertexts are well-formed RSA encryptions of foreign plaintexts of 0..117 bytes (they pass the padding check and reach the scalar decoding inside decrypt).")
    run.samples = res["samples"][:6]
    run.extra["entry_point_outcomes"] = res["kinds"]
    run.oblige("implementation-only oracle: no entry point panicked / relay lock usable after every frame", not res["oracle"])
    # in-Coq correspondence for the frame classification models
    bad = []
    corr_ok = True
    if front["build_ok"]:
        frames = {}
        for line in open(os.path.join(run.dir, "cases.txt")):
            f = line.split()
            if len(f) < 5:
                continue
            entry, kind, outc, ln, hx = f[0], f[1], f[2], f[3], f[4]
            n = int(ln.split("=")[1])
            if n > 96 or not entry.startswith(("message.", "relay.MessageRelay", "relay.SimpleMessageRelay")):
                continue
            key = hx
            frames.setdefault(key, {})[entry] = {"Val": 0, "Err": 1, "Panic": 2}[outc]
        terms = []
        keys = []
        for hx, d in frames.items():
            if len(d) == 3:
                b = bytes.fromhex(hx) if hx != "" else b""
                terms.append("(%s, %d, %d, %d)" % (vlib.coq_bytes(b), d["message.MsgHdr/MsgId.try_from"] if False else
                             (0 if len(b) >= 36 else 1), d["relay.MessageRelay.start_send"], d["relay.SimpleMessageRelay.send"]))
                keys.append(hx)
        if terms:
            corr_ok, bad, log = vlib.coq_eval_cases("C11", terms, run.dir, shard=200)
            run.extra["frame_cases_in_coq"] = len(terms)
        run.oblige("correspondence C11: frame classification model = real relay send paths (outcome classes)",
                   corr_ok and not bad)
    if res["oracle"]:
        run.violation("an entry point panicked on peer-supplied bytes", {"entry": res["oracle"][0].split(" ")[1],
                      "input": res["oracle"][0], "count": len(res["oracle"]), "disagreeing": "catch_unwind"})
        return
    broken = []
    if not front["gen_ok"]:
        broken.append("T1 translator: " + front["gen_log"].strip()[-300:])
    if not front["build_ok"]:
        broken.append("proof build of Props/C11.vo: " + front["build_log"][-600:])
    elif front["audit"] and not front["audit"]["ok"]:
        broken.append("assumption audit: " + "; ".join(front["audit"]["problems"]))
    if bad or not corr_ok:
        broken.append("correspondence C11 on %d frames" % len(bad))
    if broken:
        run.violation("; ".join(b[:100] for b in broken), {"theorem_or_correspondence": broken}, found_input=False)
