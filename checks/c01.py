"""C01: random-VOLE shares multiply out (c + d = a*b), both variants. Mode B: extracted composed model
(Rvole over SoftSpoken / Endemic) with the real merlin / k256 behind the oracles."""
import vlib


def check(run, replay=None):
    vlib.modeb_check(
        run, "C01", "c01", ["Extract/ExtrC01.vo"],
        "rvole::RVOLEReceiver::{new,process} / rvole::RVOLESender::process and the same entry points of rvole_ot_variant",
        rule=("runs = sender inputs a_i in {0, 1, q-1, 2^255 mod q, random}, the two batch positions chosen independently so that "
              "mixed zero / non-zero vectors (0,1), (q-1,0), (0,q-1), (2^255,0) occur in both variants of every tier, "
              "x 32-byte session ids {all-zero, all-one, random} "
              "x beta tapes {random, all-zero, all-one}; OT-extension variant with seeds from generate_all_but_one_seed_ot "
              "(seeded rng) and from the real Endemic -> build_pprf/eval_pprf pipeline, plus runs with a reused (non-Default) "
              "Round1Output buffer (model validation of accumulate-vs-overwrite; the sender must abort in model and code); "
              "base-OT variant with replayed rng streams (Scalar::random / ProjectivePoint::random tapes). Per run the "
              "extracted model is given only inputs and tapes; compared byte for byte: round-one message, receiver state "
              "(bytemuck, incl. beta at offset 32 and v_x), b, the round-two message (49,248 B; 83,040 B for the base-OT "
              "variant incl. both base-OT replies), c, d. Implementation-only oracle on every run: c + d == a*b in k256. "
              "non-trivial = accepted runs with a non-zero input Half of the sessions hand the sender an output buffer that was used before; one case per variant has input (0,0) with an all-zero eta tape; receiver tapes with all-zero / all-one choice bits."),
        assumptions=["merlin framing is injective in (label, message) sequences (the model's oracle input is the structured "
                     "operation list)",
                     "k256 implements a group satisfying group_laws and its 33-byte point encoding round-trips "
                     "(enc33_roundtrip): premises of rvole_ot_pipeline_correct",
                     "0 < q <= 2^256 (premise of every theorem; proved for the secp256k1 order in rvole_hyps_satisfiable)",
                     "OT-extension pipeline: seeds_ok (C03) is the premise on the seed pair; proved for the synthetic "
                     "generator (rvole_pipeline_synthetic), for the Endemic->PPRF seeds it is the conclusion of C06"],
        replay=replay)
