"""C17: the buffering relay wrapper neither loses, duplicates nor misroutes.
T2: the real BufferedMsgRelay around a scripted mock relay, futures polled by hand (Pending placement and
cancellation controlled by the harness), against the executable model Model/Buffered.v evaluated in Coq;
T1: header/id sizes come from Gen/Params.v."""
import json
import os
import vlib


def check(run, replay=None):
    run.trusted = vlib.BASE_TRUSTED + [
        "scripted mock Relay of harness/src/c17.rs (what poll_next/poll_ready/start_send/poll_flush answer) and the "
        "hand-polling driver with futures_util::task::noop_waker",
        "rustc's async-fn lowering and futures-util 0.3 Feed/Flush/Next (modelled: what a suspended future holds)",
    ]
    run.assumptions = [
        "the inner relay uses the default Relay::ask (Feed of AskMsg::allocate); poll results only, wakers/executors are not modelled",
        "the application does not rewrite frames through buffered_mut() (it hands out &mut [u8] of parked frames)",
    ]
    front = vlib.standard_front(run, "C17", gen=["Params.v"], clean=(run.tier == "thorough"))
    if not front["harness_ok"]:
        run.violation("harness does not build against /repo", {"theorem_or_correspondence": "harness build",
                      "log": front["harness_log"][-800:]}, found_input=False)
        return
    args = {"seed": run.seed, "tier": run.tier, "out": run.dir}
    if replay:
        rp = json.load(open(replay))
        if "spec" in rp:
            args["spec"] = rp["spec"]
    for f in ("cases.txt", "oracle.txt", "header.v", "stats.json"):
        try:
            os.remove(os.path.join(run.dir, f))
        except OSError:
            pass
    rc, out = vlib.harness("c17", args)
    if rc != 0 or not os.path.exists(os.path.join(run.dir, "oracle.txt")):
        run.oblige("harness c17 ran to completion", False)
        run.violation("harness c17 failed (rc=%s)" % rc, {"theorem_or_correspondence": "harness run", "log": out[-800:]},
                      found_input=False)
        return
    cases = []
    for line in open(os.path.join(run.dir, "cases.txt")):
        kind, spec, nontriv, term = line.rstrip("\n").split("\t")
        cases.append((kind, spec, nontriv == "1", term))
    # the long random runs cost ~20x more Coq time per case than the exhaustive ones: spread them evenly
    heavy = [c for c in cases if c[0] == "random"]
    light = [c for c in cases if c[0] != "random"]
    if heavy and light:
        step = max(1, len(light) // len(heavy))
        cases = []
        for i, c in enumerate(light):
            if i % step == 0 and heavy:
                cases.append(heavy.pop())
            cases.append(c)
        cases += heavy
    oracle = open(os.path.join(run.dir, "oracle.txt")).read().split("\n")
    oracle_n = int(oracle[0].split()[1])
    oracle_fail = [l.split("\t")[1:] for l in oracle if l.startswith("FAIL")]
    stats = json.load(open(os.path.join(run.dir, "stats.json")))
    header = open(os.path.join(run.dir, "header.v")).read()
    run.oblige("implementation-only oracle: conservation law, id match, predicate, buffer-first on every executed case",
               not oracle_fail)
    bad = []
    corr_ok = False
    if front["build_ok"]:
        corr_ok, bad, log = vlib.coq_eval_cases("C17", [c[3] for c in cases], run.dir, shard=max(100, min(600, len(cases) // 64 + 1)),
                                                header=header, timeout=1500)
        run.oblige("correspondence C17: model = real BufferedMsgRelay (results, buffered(), inner calls) on every selected case",
                   corr_ok and not bad)
        if not corr_ok:
            run.extra["correspondence_error"] = log[-1000:]
    run.evaluations = len(cases) + oracle_n
    run.nontrivial = len({c[1] for c in cases if c[2]})
    run.rule = ("scripted inner relay x call sequence x cancellation points, futures of the real wrapper polled by hand. "
                "exh: all arrival sequences of <= 4 frames over {A1,A2 (same id), B1, C1 (36 bytes exactly), S (35 bytes)} incl. "
                "identical duplicates, every gap in {-, Pending, End}, plus all arrangements of the 5-frame multisets {A1,A1,B1,C1,S} and "
                "{A1,A2,B1,B1,S} with every gap in {-, Pending}; all sequences of <= 3 calls (<= 4 on <= 3 frames, thorough) over "
                "{recv a, recv b (ttl 70000), wait_for(id=c), wait_for(id!=a), next}, every cancellation point (drop after k>=1 "
                "Pending polls); quick executes a seeded 1/8 slice of the scripts with >= 3 frames. sink: <= 2 frames x poll_ready/"
                "start_send/poll_flush scripts with Pending/Err x <= 2 calls x cancellation incl. drop-before-first-poll. "
                "random: long runs (<= 55 events, <= 40 calls, random ids sharing prefixes, truncated frames, ttl up to 2^32-1). "
                "Every executed case is checked by the implementation-only oracle; a seeded sample (all random runs) is evaluated by "
                "the Coq model. non-trivial = distinct model-evaluated case in which a frame was parked in in_buf or a future was dropped")
    run.samples = [{"kind": k, "spec": s} for k, s, _, _ in cases[1000:1003] + cases[-2:]]
    run.extra["harness_stats"] = {k: v for k, v in stats.items() if k != "harness_seconds"}
    run.extra["model_evaluated"] = {k: sum(1 for c in cases if c[0] == k) for k in sorted({c[0] for c in cases})}
    run.extra["oracle_evaluations"] = oracle_n
    # ---- break protocol
    if oracle_fail:
        what, spec = oracle_fail[0]
        run.violation("BufferedMsgRelay: " + what, {"spec": spec, "entry": "BufferedMsgRelay::{wait_for,recv,poll_next}",
                      "disagreeing": "implementation-only oracle", "count": len(oracle_fail),
                      "replay_cmd": "bin/vcheck C17 --replay <this file>"})
        return
    broken = []
    if not front["gen_ok"]:
        broken.append("T1 translator: " + front["gen_log"].strip()[-300:])
    if not front["build_ok"]:
        broken.append("proof build of Props/C17.vo: " + front["build_log"][-600:])
    elif front["audit"] and not front["audit"]["ok"]:
        broken.append("assumption audit: " + "; ".join(front["audit"]["problems"]))
    if front["build_ok"] and (bad or not corr_ok):
        broken.append("correspondence C17 (model vs implementation) on %d cases" % len(bad))
    if broken:
        rep = {"theorem_or_correspondence": broken, "entry": "BufferedMsgRelay"}
        if bad:
            k, spec, _, term = min((cases[i] for i in bad), key=lambda c: (len(c[1]), c[1]))  # smallest disagreeing case
            rep.update({"spec": spec, "recorded": term[-600:], "note": "model and implementation differ on this case; the "
                        "conservation/id-match oracle holds on it"})
        run.violation("; ".join(b[:80] for b in broken), rep, found_input=False)
