"""C04: the OT-extension sender catches a deviating receiver. Mode B: extracted model with the real merlin oracle."""
import vlib


def check(run, replay=None):
    res = vlib.modeb_check(
        run, "C04", "c04", ["Extract/ExtrC03.vo"], "SoftSpokenOTSender::process",
        rule=("base instances (generated / hand-built seeds incl. punctured indices 0 and 15, session ids of length 0/1/32/100, "
              "random and structured choice vectors) + one degenerate instance (all punctured indices 0); corruptions of the real "
              "first-round message: 3 fields x >=64 random bit positions + field boundaries, multi-bit, overwritten fields, swapped "
              "rows/fields, splices from another session / seed set / choice vector / tape; calibrated selective-failure deviations "
              "(blocks 0, 31, 63 and combinations; guesses right / wrong / zero; dense, single-bit and pad-only differences) built "
              "by the harness's own adversary (merlin + verif_gf128_mul) AND by the model's adv_receiver (byte-equal messages "
              "required); every message goes to the REAL sender and to the model sender, verdicts and outputs must match; "
              "thorough: every one of the 73,856 bit positions against the real sender, 2000 calibrated deviations; "
              "non-trivial = messages other than the honest ones Compensating alterations (same XOR mask in two / sixteen bytes of a row of t, x, u or in the same byte of two rows); honest instances with all-zero / all-one choices and tapes (x = 0)."),
        assumptions=["merlin framing is injective in (label, message) sequences (the model's oracle input is the structured operation list)",
                     "the field multiplication of the model is gf_spec_bytes; its equality with binary_field_multiply_gf_2_128 is C19",
                     "rejection of a tampered u is proved as 'accepted => explicit GF(2^128) equations on the fresh challenges "
                     "chi' = H(digest u')' (DESIGN.md 3.3); the probability of that oracle event is not mechanised",
                     "selective failure: accepted <=> every deviating block has hash image 0 or a right guess; the zero-image case "
                     "is a single-point oracle event"],
        replay=replay)
    if res is not None:
        n = res.get("exhaustive_bit_positions", 0)
        if n:
            run.exhaustive = {"what": "every bit position of the first-round message flipped, real sender only", "count": n}
