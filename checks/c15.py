"""C15: the in-memory relay delivers each asked-for message exactly once per ask, to askers only; header codec
round trip.  Theorems about Model/Relay.v (Props/C15.v); tie T2: histories run against the real
SimpleMessageRelay with the virtual clock and evaluated by the model inside Coq (Corr/C15.v).
C16 (checks/c16.py) shares everything here with its own generators and theorem file."""
import json
import os
import vlib

ENTRY = "sl_mpc_mate::coord::simple::{SimpleMessageRelay, MessageRelay} / sl_mpc_mate::message::{MsgHdr, allocate_message, AskMsg}"


def blist(hexs):
    return vlib.coq_bytes(bytes.fromhex(hexs)) if hexs != "-" else "[]"


class Dict:
    """names for the byte strings of a group of cases (frames and ids are repeated many times)"""

    def __init__(self, prefix):
        self.prefix = prefix
        self.names = {}

    def name(self, hexs):
        if hexs in ("-", "e"):
            return "[]"
        n = self.names.get(hexs)
        if n is None:
            n = "%s%d" % (self.prefix, len(self.names))
            self.names[hexs] = n
        return n

    def lets(self):
        return "".join("let %s := %s in " % (n, blist(h)) for h, n in self.names.items())

    def defs(self):
        return "".join("Definition %s : list N := %s.\n" % (n, blist(h)) for h, n in self.names.items())


def flist(field, d):
    if field == "-":
        return "[]"
    return "[" + ";".join(d.name(x) for x in field.split(":")) + "]"


def hist_ops(line):
    """[(kind, fields...)] of a `hist` line"""
    parts = line.split()
    body = parts[3] if len(parts) > 3 else ""
    return parts[1], int(parts[2]), [p.split(",") for p in body.split(";") if p]


def hist_term(line, d):
    return "CHist " + hist_list(line, d)


def hist_list(line, d):
    _, _, ops = hist_ops(line)
    out = []
    for f in ops:
        if f[0] == "S":
            out.append("(OSend %s %s %s, [ObsSend %s])" % (f[1], d.name(f[3]), f[2], "true" if f[4] == "1" else "false"))
        elif f[0] == "R":
            out.append("(ORelaySend %s %s, [])" % (d.name(f[2]), f[1]))
        elif f[0] == "D":
            out.append("(ODrain %s, [ObsDrain %s %s])" % (f[1], f[1], flist(f[2], d)))
        elif f[0] == "M":
            out.append("(OMessages, [ObsMsgs %s])" % flist(f[1], d))
        elif f[0] == "P":
            # the implementation panicked: an observation no model step produces
            out.append("(OMessages, [ObsSend false])")
    return "[" + ";".join(out) + "]"


def codec_term(line):
    _, idh, ttl, flags, payload, frame, rid, rttl, rflags, ask = line.split()
    return "CCodec %s %s %s %s %s %s %s %s %s" % (blist(idh), ttl, flags, blist(payload), blist(frame), blist(rid), rttl,
                                                   rflags, blist(ask))


def describe(f):
    if f[0] == "S":
        return "sink.send conn=%s t_ns=%s frame=%s -> %s" % (f[1], f[2], f[3], "Ok" if f[4:] == ["1"] else "Err")
    if f[0] == "R":
        return "SimpleMessageRelay::send t_ns=%s frame=%s" % (f[1], f[2])
    if f[0] == "D":
        return "drain conn=%s -> %s" % (f[1], f[2])
    if f[0] == "M":
        return "messages() -> %s" % f[1]
    return "PANIC in the preceding operation"


def replay_of(line):
    gen, nconn, ops = hist_ops(line)
    return {"entry": ENTRY, "generator": gen, "connections": nconn, "history_line": line.strip(),
            "history": [describe(f) for f in ops]}


def nontrivial(line):
    """a history counts as non-trivial when at least one frame was delivered to some connection"""
    parts = line.split()
    body = parts[3] if len(parts) > 3 else ""
    return any(p.startswith("D,") and not p.endswith(",-") for p in body.split(";"))


def check(run, replay=None, prop="C15", harness_cmd="c15"):
    run.trusted = vlib.BASE_TRUSTED + [
        "hook: cfg(sl_crypto_verif) virtual clock consulted instead of Instant::now() in Inner::send/recv",
        "tokio current-thread runtime, mpsc channels and task spawning (spawned tx.send tasks complete after a few yields)",
        "std::collections::HashMap / BinaryHeap (modelled as association list / list with pop-min; independence of the "
        "pop order among equal keys is proved: cleanup_perm_invariant)",
        "sequential histories only: the relay Mutex serialises concurrent clients (argument not mechanised)",
    ]
    run.assumptions = ["clock values never decrease (Instant is monotonic)",
                       "Instant + Duration does not overflow", "a connection's channel (capacity 100) is drained before it fills"]
    front = vlib.standard_front(run, prop, targets=["Props/%s.vo" % prop, "Corr/C15.vo"], gen=["Params.v"],
                                clean=(run.tier == "thorough"))
    if not front["harness_ok"]:
        run.violation("harness does not build against /repo", {"theorem_or_correspondence": "harness build",
                      "log": front["harness_log"][-800:]}, found_input=False)
        return
    args = {"seed": run.seed, "tier": run.tier, "out": run.dir}
    if replay:
        rp = json.load(open(replay))
        if "history_line" in rp:
            p = os.path.join(run.dir, "replay_case.txt")
            open(p, "w").write(rp["history_line"] + "\n")
            args["replay"] = p
    rc, out = vlib.harness(harness_cmd, args)
    if rc != 0:
        run.violation("harness run failed rc=%d" % rc, {"theorem_or_correspondence": "harness run", "log": out[-800:]},
                      found_input=False)
        return
    lines = [l for l in open(os.path.join(run.dir, "cases.txt")) if l.strip()]
    oracle = open(os.path.join(run.dir, "oracle.txt")).read().split("\n")
    oracle_fail = [l.split(None, 3)[1:] for l in oracle if l.startswith("FAIL")]
    oracle_n = int(oracle[0].split()[1])
    run.oblige("implementation-only oracle: property sentences hold on the recorded behaviour of the real relay/codec "
               "(askers only, at most once, answered if live, first live publication, retention, no dead entries)",
               not oracle_fail)
    conc_fail, conc_n = [], 0
    try:
        cl = open(os.path.join(run.dir, "concurrent.txt")).read().split("\n")
        conc_n = int(cl[0].split()[1])
        conc_fail = [l[5:] for l in cl if l.startswith("FAIL")]
    except (OSError, ValueError, IndexError):
        pass
    if conc_n:
        run.oblige("concurrent clients on a multi-threaded runtime (%d scenarios with interleaving-independent outcome): "
                   "one copy per ask, askers only, one publication per id delivered to everybody" % conc_n, not conc_fail)
        run.extra["concurrent_scenarios"] = conc_n
    # ---- correspondence: the model evaluated inside Coq on the same histories
    bad = []
    corr_ok = False
    if front["build_ok"]:
        ex_idx = [i for i, l in enumerate(lines) if l.startswith("hist exhaustive")]
        other_idx = [i for i, l in enumerate(lines) if not l.startswith("hist exhaustive")]
        d = Dict("F")
        ex_terms = [hist_term(lines[i], d) for i in ex_idx]
        # long histories (bursts): their many frames become top-level definitions of their own file (a term with hundreds of
        # nested lets takes minutes to type-check), one file per history so that they are evaluated in parallel
        long_idx = [i for i in other_idx if lines[i].startswith("hist") and lines[i].count(";") > 80]
        other_idx = [i for i in other_idx if i not in set(long_idx)]
        other_terms = []
        for i in other_idx:
            if lines[i].startswith("codec"):
                other_terms.append(codec_term(lines[i]))
            else:
                dd = Dict("f")
                body = hist_term(lines[i], dd)
                other_terms.append("(" + dd.lets() + body + ")")
        ok3, bad3, log3 = (True, [], "")
        for n, i in enumerate(long_idx):
            dl = Dict("G")
            term = hist_term(lines[i], dl)
            o, b, lg = vlib.coq_eval_cases("C15", [term], os.path.join(run.dir, "long%d" % n), shard=1, header=dl.defs(), timeout=1500)
            ok3 = ok3 and o
            bad3 += [i for _ in b]
            log3 += lg
        ok1, bad1, log1 = (True, [], "")
        if ex_terms:
            ok1, bad1, log1 = vlib.coq_eval_cases("C15", ex_terms, os.path.join(run.dir, "ex"),
                                                  shard=max(50, len(ex_terms) // (2 * vlib.NCPU) + 1), header=d.defs())
        ok2, bad2, log2 = (True, [], "")
        if other_terms:
            ok2, bad2, log2 = vlib.coq_eval_cases("C15", other_terms, os.path.join(run.dir, "rnd"),
                                                  shard=max(10, len(other_terms) // (2 * vlib.NCPU) + 1))
        corr_ok = ok1 and ok2 and ok3
        log2 += log3
        bad = sorted([ex_idx[b] for b in bad1] + [other_idx[b] for b in bad2] + bad3)
        run.oblige("correspondence %s: Model/Relay.v = real relay and codec on every harness case "
                   "(sink results, per-drain multisets, messages())" % prop, corr_ok and not bad)
        if not corr_ok:
            run.extra["correspondence_error"] = (log1 + log2)[-1500:]
    hist_lines = [l for l in lines if l.startswith("hist")]
    run.evaluations = len(lines) + conc_n
    run.nontrivial = len({l for l in hist_lines if nontrivial(l)}) + sum(1 for l in lines if l.startswith("codec"))
    run.rule = ("histories of publish / ask / drain / messages() operations with explicit clock values, executed by the real "
                "SimpleMessageRelay (virtual clock, current-thread runtime, yield until quiescent) and by the model inside Coq; "
                "exhaustive over {publish(id,ttl), ask(conn,id,ttl)} x 2 connections x 2 ids x TTL {1,3} x advance {0,1,3}s up to "
                "the stated length (id/connection symmetry removed), seeded random histories (<= 60 operations, 4 connections, "
                "5 ids, TTL 0..7 and 16-bit-boundary TTLs, ns-granular clock advances on the expiry boundaries, a malformed stream), "
                "and header-codec cases. non-trivial = distinct history in which at least one frame was delivered, or codec case Burst histories (70-300 distinct ids: more pending deliveries per connection than the channel capacity, more heap records due at one operation than any batch).")
    st = {}
    try:
        st = json.load(open(os.path.join(run.dir, "stats.json")))
    except (OSError, ValueError):
        pass
    run.extra["operation_and_outcome_distribution"] = st
    run.extra["oracle_evaluations"] = oracle_n
    gens = {}
    for l in lines:
        k = l.split()[1] if l.startswith("hist") else "codec"
        gens[k] = gens.get(k, 0) + 1
    run.extra["cases_by_generator"] = gens
    exl = [k for k in gens if k.startswith("exhaustive")]
    if exl and not replay:
        run.exhaustive = bool(front["build_ok"] and corr_ok and not bad)
        run.extra["exhaustive_scope"] = "all histories of length <= %d over the 36-letter alphabet" % max(int(k[10:]) for k in exl)
    run.samples = [replay_of(l) for l in hist_lines[400:402] + hist_lines[-2:]]
    # ---- break protocol
    if oracle_fail:
        idx, what, detail = (oracle_fail[0] + ["", ""])[:3]
        rep = {"entry": ENTRY, "disagreeing": "implementation-only oracle: " + what, "detail": detail,
               "count": len(oracle_fail)}
        l = lines[int(idx)] if int(idx) < len(lines) else ""
        if l.startswith("hist"):
            rep.update(replay_of(l))
        else:
            rep["codec_case"] = l.strip()
        run.violation("real relay/codec violates %s: %s" % (prop, what), rep)
        return
    if conc_fail:
        run.violation("real relay violates %s under concurrent clients: %s" % (prop, conc_fail[0]),
                      {"entry": ENTRY, "disagreeing": "implementation-only oracle, concurrent scenario (harness c15::concurrent, "
                       "seeded by seed= and the run number)", "detail": conc_fail[:5], "count": len(conc_fail)})
        return
    broken = []
    if not front["gen_ok"]:
        broken.append("T1 translator: " + front["gen_log"].strip()[-300:])
    if not front["build_ok"]:
        broken.append("proof build of Props/%s.vo: " % prop + front["build_log"][-600:])
    elif front["audit"] and not front["audit"]["ok"]:
        broken.append("assumption audit: " + "; ".join(front["audit"]["problems"]))
    if front["build_ok"] and (bad or not corr_ok):
        broken.append("correspondence %s (model vs implementation) on %d cases" % (prop, len(bad)))
    if broken:
        rep = {"theorem_or_correspondence": broken, "entry": ENTRY}
        if bad:
            l = lines[bad[0]]
            if l.startswith("hist"):
                rep.update(replay_of(l))
                dd = Dict("f")
                body = hist_list(l, dd)
                mo, _ = vlib.coq_eval_terms("From SL Require Import Lib.Base Model.Relay Corr.C15.\nLocal Open Scope N_scope.",
                                            ["(" + dd.lets() + "trace init (map fst " + body + "))"], run.dir, name="model_out")
                rep["model_observations"] = (mo[0][:4000] if mo else "(model evaluation failed)")
                rep["byte_string_names"] = {n: h for h, n in dd.names.items()}
            else:
                rep["codec_case"] = l.strip()
            rep["note"] = ("model and implementation differ on this case; the implementation-only oracle found no property "
                           "violation in this run")
        run.violation("; ".join(b[:80] for b in broken), rep, found_input=False)
