"""C14: discrete-log proof (Schnorr + Fiat-Shamir). Mode B: extracted model with real merlin/k256 oracles."""
import vlib


def check(run, replay=None):
    vlib.modeb_check(
        run, "C14", "c14", ["Extract/ExtrC14.vo"], "DLogProof::prove / DLogProof::verify",
        rule=("secrets {0,1,q-1,random} x base points {G, random, identity} x contexts (session ids of length 0/1/32/100, "
              "party, action, label); per case the honest proof is compared byte for byte (t, s) with the model run on the "
              "same nonce, and the verdicts of honest + mutated verifications (other statement, base, commitment, response "
              "incl. single-bit flips, every context field) are compared with the model; non-trivial = mutated verifications Degenerate replacements: t = identity, s = 0, y = identity, t = y; last-byte flips of session id and action; party id + 2^8..2^56."),
        assumptions=["merlin framing is injective in (label, message) sequences (the model's oracle input is the structured "
                     "operation list)", "k256 implements a prime-order group (group_laws); primality of q is a premise of "
                     "dlog_context_binding", "rejection sentences are proved as 'accept => explicit oracle coincidence' "
                     "(DESIGN.md 3.3); the probability of the coincidence is not mechanised"],
        replay=replay)
