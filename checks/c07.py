"""C07: Paillier -- private-key operations invert public-key operations.
Theorems: coq/Props/C07.v (about coq/Model/Paillier.v).  Tie T2: the real SK<C,M,P>/PK<C,M> at the four limb
configurations is run by harness/src/c07.rs; a sample of its results is re-computed by the model inside Coq
(Z for toy keys, Z and BigZ for mid-size keys, BigZ for key-sized operands)."""
import paillier_common as pc


def nontrivial(g, o):
    tag = o[0]
    if tag == "enc":
        return o[1] != "0" and o[2] != "1"
    if tag in ("dec", "decf", "root"):
        return o[1] not in ("0", "1")
    if tag == "msg":
        return o[1] != "-"
    return tag in ("key", "imsg")


def check(run, replay=None):
    rule = {
        "oracle": "closed form (1+mN)r^N mod N^2, decrypt = decrypt_fast = m, paths agree with an independent "
                  "L(c^phi)/phi on arbitrary units, N-th root of r^N mod N and of every ciphertext reduced mod N (returns the randomiser), key restored from minimal form / bincode behaves "
                  "identically, message admits iff value < N, Deserialize rejects zero/even",
        "text": ("keys: all %s ordered pairs of distinct odd primes <= 31 with gcd(N,phi)=1 in every limb configuration; "
                 "mid-size keys (17..62-bit primes, balanced and unbalanced); four key-sized keys per configuration "
                 "(modulus of 2k and 2k-1 bits, p<q and p>q). In-harness oracle: every m in [0,N) x 6 units "
                 "(1, 2, N-1, 3 sampled; thorough: all of Z_N^*) in the 512-bit configuration, a slice in the others; "
                 "m in {0,1,N-1,random} x r in {1,2,N-1,random} for mid/key-sized keys; random and boundary arbitrary "
                 "ciphertexts (1, N+1, N^2-1, N^2+1, 2^wC-1, uniform < 2^wC, uniform < N^2); byte strings of length "
                 "0..=2*BYTES+3 with values N-1, N, N+1, 2^(8 BYTES), 2^(8 BYTES)-1, 0, random, zero-extended / "
                 "with a non-zero byte beyond the value, or with several excess bytes that cancel under xor / a wrapping sum; "
                 "carry-boundary plaintexts m = -N^-1 mod 2^w for every limb boundary w up to the plaintext width (and m +- 1) "
                 "under mid-size and key-sized keys (one key per configuration admits the full-width one). A sample of these records is evaluated by the Coq model. "
                 "non-trivial = distinct in-Coq record with operands other than 0/1 (enc: m != 0 and r != 1)"),
    }
    pc.run_check(run, replay, "C07", "c07",
                 "model = real implementation on every sampled record (encrypt, decrypt, decrypt_fast, "
                 "extract_n_root(+init params), message, into_message, key fields, Deserialize class)",
                 rule, nontrivial)
