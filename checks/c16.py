"""C16: the relay retains entries for their TTL and forgets them afterwards.  Same model, correspondence file
(Corr/C15.v) and machinery as C15; theorems in Props/C16.v; harness generators biased to the orderings the
property names (ask-expiry < publish < publish-expiry, re-publication after expiry, stale heap entries, equal
timestamps), messages() recorded after every operation."""
import c15


def check(run, replay=None):
    c15.check(run, replay, prop="C16", harness_cmd="c16")
    run.rule = ("as C15, generators: scenario prefixes for ask-expiry < publish < publish-expiry, re-publication after expiry, "
                "stale Ask heap entries against a live publication and against newer waiters, waiters joined with shorter and "
                "longer TTLs, equal timestamps (boundary offsets -1ns/0/+1ns), followed by random operations over 2-3 ids with "
                "TTL 0..3 s and clock advances on the second boundaries; messages() recorded after every operation; plus the "
                "exhaustive short histories. non-trivial = distinct history in which at least one frame was delivered")
