"""C05: Endemic base OT. Mode B: extracted model with real merlin/k256 oracles."""
import vlib


def check(run, replay=None):
    vlib.modeb_check(
        run, "C05", "c05", ["Extract/ExtrC05.vo"],
        "EndemicOTReceiver::new / EndemicOTSender::process / EndemicOTReceiver::process",
        rule=("per tape (receiver: choice bits, 256 t_a, 256 r_other replayed from the rng in the order the code draws them; "
              "sender: 512 t_b): session ids of length 0/1/32/1000; honest exchange; sender under another session id (random, "
              "one bit flipped, one byte appended, one byte dropped); message 1 substituted from another session; message 2 "
              "substituted from another session; message 1 / message 2 with undecodable 33-byte strings at instance 0, 255 and "
              "random positions (chosen and unchosen side); a point of message 1 replaced by another valid point (generator, "
              "identity, random). Every call of the three functions is compared with the extracted model: both messages byte for "
              "byte, 512 sender keys, 256 receiver keys, choice bits, Ok/Err verdicts; non-trivial = all non-honest exchanges Degenerate tapes: all-zero / all-one choice bits, zero 32-byte draws at ephemeral-scalar and r_other positions, draws equal to the group order (NonZeroScalar redraw), previously used (junk-filled) output buffers for about half of the session ids."),
        assumptions=["merlin framing is injective in (label, message) sequences (the model's oracle input is the structured "
                     "operation list)",
                     "k256 implements a prime-order group (group_laws) and GroupEncoding::{to_bytes,from_bytes} round-trips on "
                     "every point incl. the identity = 33 zero bytes (premise enc33_roundtrip; the model's g_dec is the real decode_point)",
                     "the hash-to-curve retry loop terminates (model fuel 64; longest chain observed is reported as "
                     "max_retry_chain)",
                     "'other key differs' and session binding are proved as 'equal => explicit oracle coincidence' "
                     "(DESIGN.md 3.3); the probability of the coincidence is not mechanised"],
        replay=replay)
