"""C20: matrix inverse and Bareiss determinant over the secp256k1 scalar field.
Proofs: Props/C20.v (Bareiss = Leibniz determinant for every n, singular => Val 0, adjugate inverse for every n >= 1).
T2: the real matrix_inverse / mod_bareiss_determinant (hook) against the model of coq/Model/Matrix.v evaluated inside Coq
at q = secp256k1 order; implementation-only oracle (cofactor-expansion determinant, inverse*M == I) over all 3x3 matrices
over {0,1,2}, all 4x4 0/1 matrices and every generated case."""
import json
import os
import vlib

ENTRY = "sl_mpc_mate::matrix::matrix_inverse / mod_bareiss_determinant (verif_determinant)"


def _hexz(h):
    h = h.lstrip("0") or "0"
    return "0x%s%%Z" % h


def _mat_term(s):
    if s == "-":
        return "[]"
    rows = []
    for r in s.split("/"):
        rows.append("[]" if r == "_" else "[" + "; ".join(_hexz(x) for x in r.split(",")) + "]")
    return "[" + "; ".join(rows) + "]"


def _out_term(o, conv):
    tag, val = o.split(":", 1)
    if tag == "V":
        return "Val %s" % conv(val)
    if tag == "E":
        return "Err %s%%N" % val
    return "Panic %s%%N" % val


def _cost(rows, mat, inv):
    """rough cost of the model evaluation (for shard balancing): cells touched by all eliminations"""
    n = len(mat.split("/")) if mat != "-" else 0
    det = lambda k: sum((k - 1 - i) ** 2 for i in range(max(k - 1, 0))) + 1
    if inv.startswith("V:"):
        return n * n * det(n - 1) + 2 * det(n)
    return 2 * det(n)


def _shape(mat):
    if mat == "-":
        return 0, True
    rows = [([] if r == "_" else r.split(",")) for r in mat.split("/")]
    return len(rows), all(len(r) == len(rows) for r in rows)


def check(run, replay=None):
    run.trusted = vlib.BASE_TRUSTED + [
        "hook: cfg(sl_crypto_verif) `verif_determinant` re-exporting the private mod_bareiss_determinant",
        "k256::Scalar implements the field Z/q (add, sub, mul, pow; invert() is None exactly on 0); the model uses "
        "canonical representatives and extended Euclid",
        "panic classification by message/location in harness/src/c20.rs (index / expect / CtOption::unwrap)",
        "MathComp 1.15 (matrix, \\det, adjugate, 'F_p) as the definition of the Leibniz determinant",
    ]
    run.assumptions = [
        "prime q (section hypothesis of every theorem; primality of the secp256k1 group order is not machine-checked)",
        "the model evaluates matrix[i-1][i-1].invert() once per elimination step instead of once per cell (same argument "
        "in every iteration: the entry is not written during the step)",
        "feature `rayon` off (the harness builds sl-mpc-mate without it); with rayon only the evaluation order of the "
        "cofactor map changes",
    ]
    front = vlib.standard_front(run, "C20", gen=["Params.v"], clean=(run.tier == "thorough"))
    if not front["harness_ok"]:
        run.violation("harness does not build against /repo", {"theorem_or_correspondence": "harness build",
                      "log": front["harness_log"][-800:]}, found_input=False)
        return
    args = {"seed": run.seed, "tier": run.tier, "out": run.dir}
    if replay:
        rp = json.load(open(replay))
        if "matrix" in rp:
            args.update({"matrix": rp["matrix"], "rows": rp.get("rows", _shape(rp["matrix"])[0])})
    for stale in ("cases.txt", "oracle.txt", "order.txt"):
        try:
            os.remove(os.path.join(run.dir, stale))
        except OSError:
            pass
    rc, out = vlib.harness("c20", args)
    if rc != 0 or not os.path.exists(os.path.join(run.dir, "cases.txt")):
        run.oblige("harness c20 ran", False)
        run.violation("harness c20 failed (rc=%s)" % rc, {"theorem_or_correspondence": "harness run", "log": out[-800:]},
                      found_input=False)
        return
    cases = []
    for line in open(os.path.join(run.dir, "cases.txt")):
        kind, rows, mat, d, inv = line.split()
        cases.append((kind, int(rows), mat, d, inv))
    oracle = open(os.path.join(run.dir, "oracle.txt")).read().split("\n")
    oracle_n = int(oracle[0].split()[1])
    oracle_fail = [l.split()[1:] for l in oracle if l.startswith("FAIL")]
    run.oblige("implementation-only oracle: determinant = cofactor-expansion determinant and inverse*M = M*inverse = I on all "
               "3x3 matrices over {0,1,2}, all 4x4 0/1 matrices and every generated case", not oracle_fail)

    # ---- correspondence inside Coq (model at the secp256k1 order)
    bad, corr_ok, order_ok = [], False, False
    if front["build_ok"]:
        order = open(os.path.join(run.dir, "order.txt")).read().strip()
        res, log0 = vlib.coq_eval_terms("From SL Require Import Lib.Base Model.Matrix.",
                                        ["Z.eqb secp256k1_q %s" % _hexz(order)], run.dir, name="order")
        order_ok = bool(res) and res[0].strip() == "true"
        run.oblige("model modulus secp256k1_q = k256::Secp256k1::ORDER", order_ok)
        # balance the shards: sort by estimated cost, deal round-robin
        idx = sorted(range(len(cases)), key=lambda i: -_cost(cases[i][1], cases[i][2], cases[i][4]))
        nshard = max(1, min(len(cases), 2 * vlib.NCPU))
        size = -(-len(cases) // nshard)
        perm = []
        for k in range(nshard):
            perm.extend(idx[k::nshard])
        # pad-free: chunks of `size` of `perm` are close to the round-robin shards
        # Z.modulo on 512-bit products costs ~7 ms under vm_compute: a 6x6 inverse takes ~25 s, 8x8 ~90 s in the model.
        # quick tier: the full inverse is evaluated in Coq for n <= 5 and the first three 6x6 cases; larger matrices are
        # compared on the determinant only (their inverses are still checked by the implementation-only oracle).
        full = set()
        n6 = 0
        for i, c in enumerate(cases):
            n = _shape(c[2])[0]
            if run.tier == "thorough" or replay or n <= 5 or not c[4].startswith("V:"):
                full.add(i)
            elif n == 6 and n6 < 2:
                n6 += 1
                full.add(i)
        run.extra["in_coq_full_inverse_cases"] = len(full)
        run.extra["in_coq_determinant_only_cases"] = len(cases) - len(full)
        terms = []
        for i in perm:
            kind, rows, mat, d, inv = cases[i]
            terms.append("(%s, %d%%nat, %s, %s, %s)" % (_mat_term(mat), rows, _out_term(d, _hexz), _out_term(inv, _mat_term),
                                                      "true" if i in full else "false"))
        corr_ok, badp, log = vlib.coq_eval_cases("C20", terms, run.dir, shard=size, timeout=1500)
        bad = sorted(perm[b] for b in badp)
        run.oblige("correspondence C20: model bareiss / matrix_inverse = real determinant / matrix_inverse outcome on every "
                   "harness case", corr_ok and not bad)
        if not corr_ok:
            run.extra["correspondence_error"] = log[-1000:]

    run.evaluations = len(cases) + oracle_n
    distinct = set()
    for kind, rows, mat, d, inv in cases:
        n, sq = _shape(mat)
        if sq and n == rows and n >= 2 and mat.replace("0", "").strip(",/") != "":
            distinct.add(mat)
    run.nontrivial = len(distinct)
    run.exhaustive = {"3x3 over {0,1,2}": 19683, "4x4 over {0,1}": 65536,
                      "checked_by": "implementation-only oracle in the harness; class-stratified seeded sample in Coq"}
    run.rule = ("in-Coq cases: class-stratified seeded samples of the two exhaustive families (classes: singular/invertible x "
                "all-zero diagonal / zero top-left / non-zero top-left), seeded random matrices n = 1..8 of kinds dense, sparse, "
                "small {0,1,2}, Vandermonde, Birkhoff-shaped, zero-diagonal, monomial (weighted permutation), singular "
                "(dependent row / zero column), lateswap (singular leading minor: zero pivot appears after elimination), entries "
                "among {0, 1, q-1, +-small, uniform}; malformed shapes (empty, ragged, rows != len). Compared: determinant "
                "outcome and full inverse outcome (Val / Err code / Panic site). non-trivial = distinct well-shaped non-zero "
                "matrix with n >= 2 among the in-Coq cases; the oracle count includes both exhaustive families")
    pick = [c for c in cases if c[0] in ("lateswap", "birkhoff", "exh4x4c3", "singular")][:5] + cases[-1:]
    run.samples = [{"kind": k, "rows": r, "matrix": m if len(m) < 600 else m[:600] + "...", "det": d,
                    "inverse": (i if len(i) < 300 else i[:300] + "...")} for k, r, m, d, i in pick]
    run.extra["kinds"] = {k: sum(1 for c in cases if c[0] == k) for k in sorted({c[0] for c in cases})}
    run.extra["sizes"] = {str(n): sum(1 for c in cases if _shape(c[2])[0] == n) for n in range(0, 9)}
    run.extra["oracle_evaluations"] = oracle_n
    run.extra["exhaustive_classes"] = [l for l in oracle if l.startswith("classes")]
    run.extra["impl_outcomes"] = {
        "det": {t: sum(1 for c in cases if c[3][0] == t) for t in "VEP"},
        "inverse": {t: sum(1 for c in cases if c[4][0] == t) for t in "VEP"}}

    # ---- break protocol
    if oracle_fail:
        rows, mat, why = oracle_fail[0][0], oracle_fail[0][1], " ".join(oracle_fail[0][2:]).replace("_", " ")
        run.violation("real matrix code violates C20: " + why[:160],
                      {"matrix": mat, "rows": int(rows), "entry": ENTRY, "why": why,
                       "disagreeing": "implementation-only oracle (cofactor-expansion determinant, inverse*M == I)",
                       "count": len(oracle_fail)})
        return
    broken = []
    if not front["gen_ok"]:
        broken.append("T1 translator: " + front["gen_log"].strip()[-300:])
    if not front["build_ok"]:
        broken.append("proof build of Props/C20.vo: " + front["build_log"][-600:])
    elif front["audit"] and not front["audit"]["ok"]:
        broken.append("assumption audit: " + "; ".join(front["audit"]["problems"]))
    if front["build_ok"] and not order_ok:
        broken.append("model modulus differs from k256's group order")
    if front["build_ok"] and (bad or not corr_ok):
        broken.append("correspondence C20 (model vs implementation) on %d cases" % len(bad))
    if broken:
        rep = {"theorem_or_correspondence": broken, "entry": ENTRY}
        if bad:
            k, r, m, d, i = cases[bad[0]]
            rep.update({"matrix": m, "rows": r, "impl_det": d, "impl_inverse": i[:400],
                        "note": "model and implementation differ on this matrix; the implementation passes the "
                                "implementation-only oracle on it (or the matrix is malformed)"})
        run.violation("; ".join(b[:80] for b in broken), rep, found_input=False)
