"""Shared by checks/c07.py and checks/c08.py: parsing of the harness records, Coq terms of
Corr/PaillierCases.v, evaluation through the Z model / the BigZ mirror, break protocol."""
import json
import os
import vlib

TRUSTED = [
    "crypto-bigint 0.5.5 is modelled, not verified: residues as integers mod m, pow_bounded_exp as b^(e mod 2^bits), "
    "const_rem/const_rem_wide/wrapping_div as Euclidean division, sub_mod as one conditional addition of the modulus, "
    "inv_odd_mod/inv_mod as the modular inverse on coprime arguments (coq/Model/Paillier.v header)",
    "coq/Model/PaillierBig.v (Bignums.BigZ mirror used to evaluate key-sized cases); each mirrored function is proved "
    "equal to the Z model in coq/Proofs/PaillierBigSpec.v from the BigZ.spec_* lemmas, which rest on the "
    "specifications of the kernel's primitive 63-bit integers (Uint63 axioms of the Coq standard library); on "
    "mid-size keys both evaluators are run on the same cases",
    "serde/bincode framing is not modelled (only the validation after decoding: zero / even N, even p or q)",
    "primality of the harness's key-sized p, q is established by num-bigint-dig's probabilistic test only "
    "(the theorems assume Znumtheory.prime)",
]


def res_term(tok):
    if tok == "none":
        return "RNone"
    if tok == "panic":
        return "RPanic"
    return "(RV 0x%s)" % tok


def op_term(f):
    tag = f[0]
    if tag == "key":
        if f[4] == "panic":
            return "OKey 0x%s 0x%s 0x%s None" % (f[1], f[2], f[3])
        return "OKey 0x%s 0x%s 0x%s (Some (0x%s, 0x%s, 0x%s, 0x%s))" % tuple(f[1:8])
    if tag == "enc":
        return "OEnc 0x%s 0x%s %s" % (f[1], f[2], res_term(f[3]))
    if tag == "dec":
        return "ODec 0x%s %s" % (f[1], res_term(f[2]))
    if tag == "decf":
        return "ODecF 0x%s %s" % (f[1], res_term(f[2]))
    if tag == "root":
        return "ORoot 0x%s %s" % (f[1], res_term(f[2]))
    if tag == "add":
        return "OAdd 0x%s 0x%s %s" % (f[1], f[2], res_term(f[3]))
    if tag == "mul":
        return "OMul 0x%s 0x%s %s" % (f[1], f[2], res_term(f[3]))
    if tag == "mulvt":
        return "OMulVt 0x%s 0x%s %s" % (f[1], f[2], res_term(f[3]))
    if tag == "msg":
        b = b"" if f[1] == "-" else bytes.fromhex(f[1])
        return "OMsg %d 0x%x %s" % (len(b), int.from_bytes(b, "little"), res_term(f[2]))
    if tag == "imsg":
        return "OIMsg 0x%s %s" % (f[1], res_term(f[2]))
    if tag == "deserpk":
        return "ODeserPk 0x%s %s" % (f[1], f[2])
    if tag == "desersk":
        return "ODeserSk 0x%s 0x%s %s" % (f[1], f[2], f[3])
    raise ValueError("unknown record " + tag)


def parse_cases(path):
    groups = []
    for line in open(path):
        f = line.split()
        if not f:
            continue
        if f[0] == "G":
            groups.append({"wp": int(f[1]), "p": f[2], "q": f[3], "kind": f[4], "ops": []})
        else:
            groups[-1]["ops"].append(f[1:])
    return groups


def group_term(g, ops=None):
    ops = g["ops"] if ops is None else ops
    return "(%d, 0x%s, 0x%s, [%s])" % (g["wp"], g["p"], g["q"], "; ".join(op_term(o) for o in ops))


def split_groups(groups):
    """(evaluator, group, ops) work items: toy keys through the Z model, mid-size keys through both,
    key-sized operands through the BigZ mirror in small chunks (each chunk rebuilds the key)."""
    items = {"check_case": [], "check_case_both": [], "check_case_big": []}
    for g in groups:
        if g["kind"] in ("toy", "deser", "replay") and len(g["p"]) <= 8 and len(g["q"]) <= 8:
            ev, chunk = "check_case", 64
        elif g["kind"] == "mid":
            ev, chunk = "check_case_both", 12
        else:
            ev = "check_case_big"
            chunk = {128: 16, 256: 8, 512: 4, 1024: 2}.get(g["wp"], 2)
            if g["ops"] and g["ops"][0][0] == "msg":
                chunk = 24
        for i in range(0, len(g["ops"]), chunk):
            items[ev].append((g, g["ops"][i:i + chunk]))
    return items


def oracle_info(path):
    lines = open(path).read().split("\n")
    info = {"fails": []}
    for l in lines:
        if l.startswith("FAIL "):
            info["fails"].append(l[5:])
        elif " " in l:
            k, v = l.split(" ", 1)
            info[k] = v
    return info


def replay_of_fail(prop_id, fail):
    """'wp p q prop args... | what' -> replay dict"""
    head, what = fail.split(" | ", 1)
    f = head.split()
    return what, {"entry": "sl_paillier (configuration wP=%s bits)" % f[0], "wP": int(f[0]), "p": f[1], "q": f[2],
                  "property_instance": " ".join(f[3:]), "observed_vs_expected": what,
                  "rp": ":".join(f[:3] + f[3:]), "disagreeing": "implementation-only oracle (num-bigint-dig)"}


def evaluate(prop_id, run, groups):
    """Evaluate all groups in Coq. Returns (ok, bad work items, log, number of ops evaluated)."""
    items = split_groups(groups)
    all_bad = []
    ok_all = True
    logs = []
    nops = 0
    shard = {"check_case": 12, "check_case_both": 2, "check_case_big": 1}
    for ev, its in items.items():
        if not its:
            continue
        terms = [group_term(g, ops) for g, ops in its]
        nops += sum(len(ops) for _, ops in its)
        d = os.path.join(run.dir, ev)
        ok, bad, log = vlib.coq_eval_cases(prop_id, terms, d, shard=shard[ev], timeout=1500,
                                           header="Local Open Scope Z_scope.", check=ev)
        if not ok:
            # a coqc process failed (not a mismatch): typically a concurrently running check of another property
            # is rebuilding a shared .vo (Lib/Base).  Rebuild our cone under the lock and evaluate once more.
            vlib.coq_build(["Corr/%s.vo" % prop_id])
            ok, bad, log = vlib.coq_eval_cases(prop_id, terms, d, shard=shard[ev], timeout=1500,
                                               header="Local Open Scope Z_scope.", check=ev)
        ok_all = ok_all and ok
        if log:
            logs.append(log)
        all_bad += [(ev,) + its[i] for i in bad]
    return ok_all, all_bad, "\n".join(logs), nops


def narrow(prop_id, run, bad_item):
    """find the first disagreeing operation of a disagreeing work item"""
    ev, g, ops = bad_item
    terms = [group_term(g, [o]) for o in ops]
    ok, bad, _ = vlib.coq_eval_cases(prop_id, terms, os.path.join(run.dir, "narrow"), shard=1, timeout=1500,
                                     header="Local Open Scope Z_scope.", check=ev)
    if ok and bad:
        return ops[bad[0]]
    return ops[0]


def run_check(run, replay, prop_id, hname, corr_what, rule, nontrivial_rule):
    run.trusted = vlib.BASE_TRUSTED + TRUSTED
    run.assumptions = [
        "key_ok: p, q distinct odd primes with gcd(pq, (p-1)(q-1)) = 1, p, q < 2^wP (premise of every theorem)",
        "widths_ok: 0 < wP, 8 | wP, wM = 2 wP, wC = 2 wM (the only shapes SK<C,M,P> can be instantiated with)",
    ]
    if run.tier == "thorough" and not replay:
        # re-check the property file itself from clean.  The shared files (Lib/Base, Model/Paillier*, Proofs/Paillier*,
        # Corr/PaillierCases) are NOT deleted: C07, C08 and other properties may be running concurrently and evaluate
        # cases against those .vo files outside the build lock; make rebuilds them whenever a source changed.
        with vlib.Lock("coq"):
            for f in ("Props/%s" % prop_id, "Corr/%s" % prop_id):
                for ext in (".vo", ".vok", ".vos"):
                    try:
                        os.remove(os.path.join(vlib.COQ, f + ext))
                    except OSError:
                        pass
    front = vlib.standard_front(run, prop_id, gen=["Params.v"], clean=False,
                                targets=["Props/%s.vo" % prop_id, "Corr/%s.vo" % prop_id, "Proofs/PaillierBigSpec.vo"])
    if not front["harness_ok"]:
        run.violation("harness does not build against /repo", {"theorem_or_correspondence": "harness build",
                      "log": front["harness_log"][-800:]}, found_input=False)
        return
    args = {"seed": run.seed, "tier": run.tier, "out": run.dir}
    if replay:
        rp = json.load(open(replay))
        if "rp" in rp:
            args["rp"] = rp["rp"]
    for f in ("cases.txt", "oracle.txt"):
        try:
            os.remove(os.path.join(run.dir, f))
        except OSError:
            pass
    rc, out = vlib.harness(hname, args)
    if rc != 0 or not os.path.exists(os.path.join(run.dir, "oracle.txt")):
        run.oblige("harness ran to completion", False)
        run.violation("harness %s failed (rc=%s)" % (hname, rc), {"theorem_or_correspondence": "harness run",
                      "log": out[-800:]}, found_input=False)
        return
    info = oracle_info(os.path.join(run.dir, "oracle.txt"))
    groups = parse_cases(os.path.join(run.dir, "cases.txt"))
    run.oblige("implementation-only oracle (%s)" % rule["oracle"], not info["fails"])
    bad = []
    corr_ok = False
    nops = 0
    if os.path.exists(os.path.join(vlib.COQ, "Corr", prop_id + ".vo")):
        corr_ok, bad, log, nops = evaluate(prop_id, run, groups)
        run.oblige("correspondence %s: %s" % (prop_id, corr_what), corr_ok and not bad)
        if not corr_ok:
            run.extra["correspondence_error"] = log[-1500:]
    else:
        run.oblige("correspondence %s: Corr/%s.vo builds" % (prop_id, prop_id), False)
    run.evaluations = int(info.get("evaluations", 0)) + nops
    distinct = set()
    kinds = {}
    sizes = {}
    for g in groups:
        for o in g["ops"]:
            kinds[o[0]] = kinds.get(o[0], 0) + 1
            sizes[g["wp"]] = sizes.get(g["wp"], 0) + 1
            if nontrivial_rule(g, o):
                distinct.add((g["wp"], g["p"], g["q"]) + tuple(o[:-1]))
    run.nontrivial = len(distinct)
    run.rule = rule["text"]
    samples = []
    for g in groups[::max(1, len(groups) // 6)]:
        if g["ops"]:
            o = g["ops"][min(2, len(g["ops"]) - 1)]
            samples.append({"wP": g["wp"], "p": g["p"], "q": g["q"], "record": " ".join(x[:80] for x in o)})
    run.samples = samples
    run.extra["in_coq_operations_by_kind"] = dict(sorted(kinds.items()))
    run.extra["in_coq_operations_by_wP"] = {str(k): v for k, v in sorted(sizes.items())}
    run.extra["in_coq_key_groups"] = len(groups)
    run.extra["oracle_evaluations"] = int(info.get("evaluations", 0))
    run.extra["oracle_nontrivial_instances"] = int(info.get("nontrivial", 0))
    run.extra["toy_keys"] = int(info.get("toy_keys", 0))
    # ---- break protocol
    if info["fails"]:
        what, rep = replay_of_fail(prop_id, info["fails"][0])
        rep["count"] = len(info["fails"])
        run.violation("real implementation violates the property: " + what[:160], rep)
        return
    broken = []
    if not front["gen_ok"]:
        broken.append("T1 translator: " + front["gen_log"].strip()[-300:])
    if not front["build_ok"]:
        broken.append("proof build of Props/%s.vo: %s" % (prop_id, front["build_log"][-600:]))
    elif front["audit"] and not front["audit"]["ok"]:
        broken.append("assumption audit: " + "; ".join(front["audit"]["problems"]))
    if bad or not corr_ok:
        broken.append("correspondence %s (model vs implementation) on %d work items" % (prop_id, len(bad)))
    if broken:
        rep = {"theorem_or_correspondence": broken, "entry": "sl_paillier"}
        if bad:
            ev, g, ops = bad[0]
            o = narrow(prop_id, run, bad[0])
            rep.update({"wP": g["wp"], "p": g["p"], "q": g["q"], "record": " ".join(o), "evaluator": ev,
                        "note": "model and implementation differ on this record; the implementation agrees with the "
                                "independent num-bigint-dig oracle on every generated instance"})
        run.violation("; ".join(b[:90] for b in broken), rep, found_input=False)
