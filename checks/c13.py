"""C13: secret-sharing algebra (math.rs).  Proofs about coq/Model/Poly*.v (+ Model/Matrix.v for the inverse) and
T2: the real functions on the harness's seeded cases against the model evaluated inside Coq (vm_compute,
q = secp256k1 order; group side in the discrete-log instance on harness-verified discrete logs)."""
import json
import os
import vlib

ENTRY = {
    "fact": "factorial_range", "eval": "Polynomial::evaluate_at", "deriv": "Polynomial::derivative_at",
    "commit": "Polynomial::commit", "geval": "GroupPolynomial::evaluate_at", "gderiv": "GroupPolynomial::derivative_coeffs",
    "mult": "polynomial_coeff_multipliers", "birk": "birkhoff_coeffs", "feld": "feldman_verify",
}


def entry_of(kind):
    return ENTRY.get(kind.split("-")[0], kind)


def balanced_order(weights, nshards):
    """Permutation of case indices such that contiguous chunks have similar total weight (heaviest first,
    dealt round-robin).  Deterministic."""
    idx = sorted(range(len(weights)), key=lambda i: (-weights[i], i))
    buckets = [idx[k::nshards] for k in range(nshards)]
    return [i for b in buckets for i in b]


def check(run, replay=None):
    run.trusted = vlib.BASE_TRUSTED + [
        "k256 implements a group of prime order q with generator G (points are compared through discrete logs that the "
        "harness verifies with k256 itself: result == d*G)",
        "FACT table length 21 is written in coq/Model/Poly.v (FACT_LEN), not generated; the factorial_range sweep "
        "0<=s<=e<=26 ties it to the code",
        "Model/Matrix.v (C20 model) as the meaning of matrix_inverse inside birkhoff_coeffs",
    ]
    run.assumptions = [
        "prime q only in birkhoff_is_lagrange (primality of the secp256k1 order is not machine-checked)",
        "birkhoff_interpolates takes inverse-correctness (mat_mul q Minv M = mat_id n) as a premise; C20 discharges it",
        "usize is 64 bit: factorial_range_spec has the premise e < 2^64",
        "group laws (module_laws) are a hypothesis of the group-side theorems; instantiated by the discrete-log instance",
    ]
    if replay:
        rp = json.load(open(replay))
        run.seed = int(rp.get("seed", run.seed))
        run.tier = rp.get("tier", run.tier)
    front = vlib.standard_front(run, "C13", clean=(run.tier == "thorough"))
    if not front["harness_ok"]:
        run.violation("harness does not build against /repo", {"theorem_or_correspondence": "harness build",
                      "log": front["harness_log"][-800:]}, found_input=False)
        return
    args = {"seed": run.seed, "tier": run.tier, "out": run.dir}
    for f in ("cases.txt", "oracle.txt", "order.txt"):
        try:
            os.remove(os.path.join(run.dir, f))
        except OSError:
            pass
    rc, out = vlib.harness("c13", args)
    if rc != 0 or not os.path.exists(os.path.join(run.dir, "cases.txt")):
        run.oblige("harness c13 ran to completion", False)
        run.violation("harness c13 failed (rc=%s)" % rc, {"theorem_or_correspondence": "harness run", "log": out[-800:]},
                      found_input=False)
        return
    cases = []
    for line in open(os.path.join(run.dir, "cases.txt")):
        kind, term, w, nt = line.rstrip("\n").split("\t")
        cases.append((kind, term, int(w), nt == "1"))
    oracle = open(os.path.join(run.dir, "oracle.txt")).read().split("\n")
    oracle_n = int(oracle[0].split()[1])
    oracle_fail = [l[5:] for l in oracle if l.startswith("FAIL ")]
    run.oblige("implementation-only oracles (Horner evaluation, repeated formal differentiation, u128 factorials, "
               "Lagrange formula, interpolation identity in the field and in the exponent, Feldman acceptance rule) "
               "hold for the real functions on every case", not oracle_fail)
    # ---- correspondence
    bad = []
    corr_ok = False
    order_ok = None
    if front["build_ok"]:
        order = open(os.path.join(run.dir, "order.txt")).read().strip()
        res, log = vlib.coq_eval_terms("From SL Require Import Lib.Base Model.Poly.", ["Z.eqb Poly.secp256k1_q %s%%Z" % order],
                                       run.dir, name="order")
        order_ok = bool(res) and res[0] == "true"
        run.oblige("model modulus = k256::Secp256k1::ORDER as printed by the harness", order_ok)
        nshards = max(1, min(48, len(cases) // 8))
        perm = balanced_order([c[2] for c in cases], nshards)
        shard = (len(cases) + nshards - 1) // nshards
        terms = ["(%s)" % cases[i][1] for i in perm]
        corr_ok, bad_p, log = vlib.coq_eval_cases("C13", terms, run.dir, shard=shard, timeout=1500,
                                                   header="Local Open Scope Z_scope.")
        bad = sorted(perm[i] for i in bad_p)
        run.oblige("correspondence C13: model = real function on every harness case", corr_ok and not bad)
        if not corr_ok:
            run.extra["correspondence_error"] = log[-1000:]
    run.evaluations = len(cases) + oracle_n
    run.nontrivial = len({c[1].rsplit("(", 1)[0] for c in cases if c[3]})
    run.rule = ("factorial_range for all 0<=s<=e<=26; coefficient lists of length 0..25 (degree <= 24, crossing the 20! table "
                "boundary) with coefficients among {0,1,q-1,uniform}; points 0,1,2,small,q-1,uniform; every derivative order "
                "0..=len+1 (scalar side and derivative_coeffs incl. the out-of-range panic); commit; group-side evaluation on "
                "points with harness-known discrete logs; coefficient multipliers for n up to 26; birkhoff_coeffs for n=0..6 "
                "(Lagrange on ids and uniform nodes, Polya rank patterns, hierarchical ranks, singular patterns = panic); "
                "Feldman with right/off-by-one/zero/negated/random shares, other base points, polynomials vanishing at x, "
                "empty commitment.  All evaluated by the model inside Coq.  non-trivial = distinct input with degree >= 1 "
                "(resp. n >= 2) and a non-boundary order")
    pick = [c for c in cases if c[0] in ("deriv", "birk-polya", "feld-right", "gderiv") and c[3]]
    run.samples = [{"kind": k, "case": t[:400]} for k, t, _, _ in pick[5:7] + pick[-3:-1] + cases[100:101]]
    run.extra["kinds"] = {k: sum(1 for c in cases if c[0] == k) for k in sorted({c[0] for c in cases})}
    run.extra["oracle_evaluations"] = oracle_n
    # ---- break protocol
    if oracle_fail:
        kind, _, desc = oracle_fail[0].partition(" ")
        run.violation("real %s violates its algebraic specification" % kind,
                      {"entry": kind, "input": desc[:2000], "count": len(oracle_fail),
                       "disagreeing": "implementation-only oracle (independent k256 arithmetic)",
                       "others": [o[:300] for o in oracle_fail[1:6]]})
        return
    broken = []
    if not front["gen_ok"]:
        broken.append("T1 translator: " + front["gen_log"].strip()[-300:])
    if not front["build_ok"]:
        broken.append("proof build of Props/C13.vo / Corr/C13.vo: " + front["build_log"][-600:])
    elif front["audit"] and not front["audit"]["ok"]:
        broken.append("assumption audit: " + "; ".join(front["audit"]["problems"]))
    if front["build_ok"] and order_ok is False:
        broken.append("model modulus differs from the group order printed by k256")
    if front["build_ok"] and (bad or not corr_ok):
        broken.append("correspondence C13 (model vs implementation) on %d cases" % len(bad))
    if broken:
        rep = {"theorem_or_correspondence": broken}
        if bad:
            k, t, _, _ = cases[bad[0]]
            rep.update({"entry": entry_of(k), "kind": k, "case": t[:2000],
                        "disagreeing_kinds": sorted({cases[i][0] for i in bad}),
                        "note": "model and implementation differ on this input; the implementation-only oracles pass on it"})
        run.violation("; ".join(b[:80] for b in broken), rep, found_input=False)
