"""C06: all-but-one PPRF (GGM tree). Mode B: extracted model coq/Model/Pprf.v with the real merlin behind its oracle."""
import vlib


def check(run, replay=None):
    vlib.modeb_check(
        run, "C06", "c06", ["Extract/ExtrC06.vo"], "soft_spoken::build_pprf / soft_spoken::eval_pprf",
        rule=("base-OT outputs (random / rho_0=rho_1 / constant / patterned keys; choice bits random or patterned so that all 16 "
              "puncture patterns occur in every run) x session ids of length 0/1/32/100 x caller buffers zeroed or reused "
              "(random content): the whole PPRF message (bytemuck::bytes_of), SenderOTSeed, ReceiverOTSeed and the verdict are "
              "compared byte for byte with the model. Non-trivial cases: single-bit / byte corruptions of the message "
              "stratified over s_tilda, t_tilda, used and unused correction words (first, last and random trees; thorough: "
              "every bit of one tree's 320-byte region + strided over all 64 trees), cross-session / cross-tree / cross-base "
              "substitution, and the calibrated adversarial sender adv_pprf (tree, level, side, delta, guessed path) built "
              "independently in the harness and by the model (messages must be byte-equal), guess right / wrong at the level "
              "/ wrong elsewhere x tampered side used / unused. Implementation-only oracle: honest => accepted, 15 leaves "
              "equal, y* as the choice bits say, slot y* differs from the sender's leaf; corrupted => rejected or all learned "
              "leaves unchanged (and s_tilda/t_tilda/used-word flips rejected, unused-word flips accepted); adversary "
              "accepted iff its guess is right or neither path reads the tampered word"),
        assumptions=["merlin framing is injective in (label, message) sequences (the model's oracle input is the structured "
                     "operation list); merlin fills challenge buffers of the requested length (the model normalises oracle "
                     "outputs with fit)",
                     "rejection of a tampered used correction word / t_tilda and the only-if half of selective failure are proved "
                     "as 'accepted => explicit oracle coincidence' (DESIGN.md 3.3); the probability of the coincidence is not "
                     "mechanised",
                     "theorems assume the caller's t_tilda buffer is all-zero (Default); build_pprf accumulates into it"],
        replay=replay)
