"""C12: BIP32 public derivation. Mode B: extracted model + extracted BIP32 specification with real k256/hmac/sha2/ripemd oracles."""
import vlib


def check(run, replay=None):
    vlib.modeb_check(
        run, "C12", "c12", ["Extract/ExtrC12.vo"],
        "derive_xpub / derive_child_pubkey / get_finger_print / XPubKey::to_string",
        rule=("paths of every length class 0..=300 (quick: 20 lengths in 0..=255, 256/257/300; thorough: every length 0..=300), indices "
              "cycling through {0, 1, 2^31-1, random 31-bit}, a hardened component at the first / a middle / the last position, prefixes "
              "xpub/ypub/zpub/tpub/custom, random roots and chain codes, roots G/-G/2G, chain codes 00..00/ff..ff, the identity root, "
              "paths built by DerivationPath::new and by parsing \"m/..\"; per derivation the real derive_xpub result (every field, "
              "to_string(false), to_string(true), error variant or panic) is compared with the extracted model AND with the extracted "
              "bip32_spec/spec_string, the offsets of the real derive_child_pubkey along the path with the model's walk_offsets; unit "
              "cases for derive_child_pubkey (incl. identity parent, hardened index), get_finger_print and to_string of hand-made keys "
              "(incl. the panicking identity key), Base58 of byte strings with 0..n leading zero bytes vs bs58 and the decode round "
              "trip; implementation-only oracle = independent Rust CKDpub/serialisation/Base58 (BigUint) reference, child = parent + "
              "offset*G, key = root + (sum of offsets)*G, composition along the path (every path of 2..255 levels is split at a "
              "case-dependent level and the second half derived from the intermediate extended key: same key, chain code, parent "
              "fingerprint, child number, root-based depth, or the same error -- derive_xpub_splits), demanded error variants, BIP32 "
              "test vectors 1 and 2 (public derivations); "
              "non-trivial = successful derivations of depth >= 2"),
        assumptions=["HMAC-SHA512, SHA-256 and RIPEMD-160 are uninterpreted functions (theorems hold for every function; hmac_len: "
                     "64-byte HMAC output is a premise where the 78-byte layout matters)",
                     "k256 implements a group satisfying group_laws; enc_len: the SEC1 compressed encoding has 33 bytes except "
                     "for the identity (1 byte)",
                     "the code accepts I_L = n where BIP32 demands I_L < n (`>` instead of `>=`): xpub_matches_spec carries the "
                     "premise that no step of the path has I_L = n (an HMAC-SHA512 preimage problem, not exhibitable)",
                     "ChildIndex values are those reachable through the derivation-path constructors (index < 2^31 plus the "
                     "hardened flag); bs58 is modelled as big-endian base conversion with the leading-zero rule (validated per run)"],
        replay=replay)
