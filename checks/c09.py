"""C09: verifiable RSA encryption -- honest proofs verify, decrypt and round-trip.
Mode B: extracted model (coq/Model/VEnc.v) with real sha2 / k256 / curve25519-dalek / rsa behind its oracles."""
import vlib


def check(run, replay=None):
    vlib.modeb_check(
        run, "C09", "c09", ["Extract/ExtrC09.vo"],
        "VerifiableRsaEncryption::{encrypt_with_proof, verify, decrypt, to_bytes, from_bytes}",
        rule=("per curve (secp256k1, edwards25519): scalars {0, 1, q-1, leading zero byte, trailing zero byte, two leading "
              "zero bytes, random} x labels of length {0,1,32,1024} x security parameters {default,128,129,200,256} and "
              "refused {0,127,257,65536} x RSA keys {1024,2048 (quick); +3072,4096 (thorough)} generated once per run from the "
              "seed x rng kinds {ChaCha20, crafted: every nonce has 1 or 2 leading zero repr bytes}; the model is run on the "
              "recorded tape (seed, nonces) and compared on: result class of encrypt_with_proof, serialised proof bytes, "
              "verify, decrypt, from_bytes, re-serialisation, verify/decrypt of the parsed object; plus BigUint byte codecs and "
              "mod_inverse on their own. Non-trivial = produced proofs. Implementation-only oracle: verify = Ok, decrypt = x, "
              "round trip identical, parameter range. Refused parameters also include 2^k + {0,127,128,129,200,255,256,257} for k = 8..63, usize::MAX and neighbours (the model takes the parameter at usize width)."),
        trusted_extra=["harness/src/c09.rs: rsa (Pkcs1v15Encrypt, ChaCha20Rng::from_seed), curve25519-dalek and k256 "
                       "GroupEncoding behind the model's rsa_enc/rsa_dec/group oracles; ocaml/drv_c09.ml"],
        assumptions=["RSA PKCS#1 v1.5 correctness (rsa_dec sk (rsa_enc seed pk m) = Some m for |m| + 11 <= k) is a hypothesis "
                     "of the theorems (rsa_pair_ok), not a theorem",
                     "gcd(label_int(label), n) = 1 is a premise of venc_honest_decrypts (otherwise the label has no inverse)",
                     "k256 / curve25519-dalek implement a group satisfying group_laws on the prime-order subgroup; the models "
                     "apply scalar multiplication to the generator only",
                     "length (sha256 x) = 32; scalar encodings are canonical and 32 bytes wide (proved for both instances)"],
        replay=replay)
