#!/usr/bin/env python3
"""retry_seed.py <PROP> <mK> "<what was added>": re-run the quick check against a seeded change that an earlier version of the check
missed, and record the outcome in meta.json (result_final)."""
import json, os, re, subprocess, sys
prop, mk, added = sys.argv[1:4]
d = "/verif/seeded/%s/%s" % (prop, mk)
t = subprocess.run(["/verif/tools/try_seed.sh", prop, d + "/patch.diff"], stdout=subprocess.PIPE, stderr=subprocess.STDOUT)
out = t.stdout.decode()
viol = re.findall(r"VIOLATION[^\n]*", out)
found = "found_input: True" in out
m = json.load(open(d + "/meta.json"))
rep = [l.strip() for l in out.splitlines() if l.strip().startswith("replay:")]
if viol:
    m["result_final"] = "MISSED by the first version; %s; now %s: %s" % (added, "caught with input" if found else "caught (no-failing-input-found)", (rep[0][8:300] if rep else ""))
else:
    m["result_final"] = "still MISSED after: " + added
m["recheck_output"] = [l for l in out.splitlines() if l.strip()][-4:]
json.dump(m, open(d + "/meta.json", "w"), indent=1)
print(prop, mk, "->", m["result_final"][:200])
