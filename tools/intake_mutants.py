#!/usr/bin/env python3
"""intake_mutants.py <PROP> <worktree> <crate> [extra cargo args for the demo]
For every <worktree>/_mutants/m*/ : confirm independently (tools/confirm_mutant.sh), copy into seeded/<PROP>/<next free mK>/,
run the quick check against it (tools/try_seed.sh) and write meta.json."""
import glob, json, os, re, shutil, subprocess, sys
prop, wt, crate = sys.argv[1:4]
# several intake chains may run side by side: a chain that finds the property claimed by another one skips it
claim = "/tmp/intake_claimed_%s_%s" % (prop, os.path.basename(wt))
if os.path.exists(claim) and open(claim).read().strip() != str(os.getppid()) and not os.environ.get("INTAKE_OWNER"):
    print("skipped (claimed by another chain):", prop, wt)
    sys.exit(0)
extra = sys.argv[4:]
root = "/verif"
sd = os.path.join(root, "seeded", prop)
os.makedirs(sd, exist_ok=True)
for m in sorted(glob.glob(os.path.join(wt, "_mutants", "m*"))):
    if not os.path.exists(os.path.join(m, "patch.diff")):
        continue
    # per-mutant crate / features announced in notes.md ("CRATE: name", "FEATURES: simple-relay")
    crate_m, extra_m = crate, list(extra)
    try:
        for line in open(os.path.join(m, "notes.md")):
            mm = re.match(r"\s*\**CRATE:\**\s*`?([\w-]+)`?", line)
            if mm:
                crate_m = mm.group(1)
            mm = re.match(r"\s*\**FEATURES:\**\s*`?([\w-]+)`?", line)
            if mm and mm.group(1).lower() not in ("none", "no") and not extra_m and "cfg" not in line:
                extra_m = ["--features", mm.group(1)]
    except OSError:
        pass
    c = subprocess.run([os.path.join(root, "tools/confirm_mutant.sh"), wt, m, crate_m] + extra_m, stdout=subprocess.PIPE, stderr=subprocess.STDOUT)
    conf = c.stdout.decode().strip().splitlines()[-1] if c.stdout else ""
    print(conf, flush=True)
    if c.returncode != 0:
        print("  NOT CONFIRMED, skipped:", m, flush=True)
        continue
    k = 1
    while os.path.exists(os.path.join(sd, "m%d" % k)):
        k += 1
    dst = os.path.join(sd, "m%d" % k)
    os.makedirs(dst)
    for f in ("patch.diff", "demo.rs", "notes.md"):
        if os.path.exists(os.path.join(m, f)):
            shutil.copy(os.path.join(m, f), dst)
    t = subprocess.run([os.path.join(root, "tools/try_seed.sh"), prop, os.path.join(dst, "patch.diff")], stdout=subprocess.PIPE, stderr=subprocess.STDOUT)
    out = t.stdout.decode()
    print(out, flush=True)
    viol = re.findall(r"VIOLATION[^\n]*", out)
    found = "found_input: True" in out
    result = ("caught with input" if found else "caught (no-failing-input-found)") if viol else "MISSED by the quick check"
    notes = open(os.path.join(dst, "notes.md")).read().splitlines() if os.path.exists(os.path.join(dst, "notes.md")) else []
    meta = {"property": prop, "origin": "independent sub-agent given only the property text and a scratch worktree",
            "breaks": "see notes.md", "notes_head": notes[:3],
            "needs_to_manifest": "see notes.md (trigger section)",
            "confirmed": conf + " ; demo: cargo test -p %s --offline --test demo %s (demo.rs dropped into crates/%s/tests/)" % (crate_m, " ".join(extra_m), crate_m),
            "ran": "tools/try_seed.sh %s seeded/%s/m%d/patch.diff" % (prop, prop, k),
            "result": result, "check_output": [l for l in out.splitlines() if l.strip()][-6:]}
    json.dump(meta, open(os.path.join(dst, "meta.json"), "w"), indent=1)
    print("==> %s/m%d: %s" % (prop, k, result), flush=True)
