#!/bin/sh
# try_seed.sh <PROP> <patch.diff> : apply a seeded change to /repo, run the quick check, undo, summarise
P=$1; D=$2
rm -f /verif/replays/$P-*
git -C /repo apply "$D" || { echo "patch does not apply"; exit 2; }
timeout 2400 /verif/bin/vcheck $P 2>&1 | tail -3
git -C /repo checkout -- .
python3 - "$P" <<'PY'
import json,glob,sys
for f in sorted(glob.glob('/verif/replays/%s-*.json'%sys.argv[1])):
    e=json.load(open(f))
    print("  replay:", e.get('what','')[:160].replace("\n"," "), "| input:", str(e.get('input', e.get('first_disagreement','')))[:260].replace("\n"," "), "| found_input:", e.get('failing_input_found'))
PY
rm -f /verif/replays/$P-*
