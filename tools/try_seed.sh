#!/bin/sh
# try_seed.sh <PROP> <patch.diff> [tier]: apply a seeded change to /repo, run the check, undo, summarise.
# Holds /repo/.git/verif-repo.lock exclusively so that no other check observes the patched tree.
P=$1; D=$(readlink -f "$2"); T=${3:-quick}
exec 9>/repo/.git/verif-repo.lock
flock -x 9
if [ -n "$(git -C /repo status --short --untracked-files=no)" ]; then echo "/repo is not clean"; exit 2; fi
rm -f /verif/replays/$P-*
git -C /repo apply "$D" || { echo "patch does not apply"; exit 2; }
VERIF_REPO_LOCKED=1 timeout 3000 /verif/bin/vcheck $P --tier $T 2>&1 | tail -4
git -C /repo checkout -- .
python3 - "$P" <<'PY'
import json,glob,sys
for f in sorted(glob.glob('/verif/replays/%s-*.json'%sys.argv[1])):
    e=json.load(open(f))
    print("  replay:", e.get('what','')[:200].replace("\n"," "), "| input:", str(e.get('input', e.get('first_disagreement','')))[:300].replace("\n"," "), "| found_input:", e.get('failing_input_found'))
PY
rm -f /verif/replays/$P-*
# the evidence file now describes the patched tree: restore the committed one
git -C /verif checkout -- evidence/$P.json 2>/dev/null
