#!/usr/bin/env python3
"""T1 translator: regenerates coq/Gen/*.v from /repo's current source.

  Gen/Params.v  protocol constants (params.rs, constants.rs label numbers, message.rs sizes,
                SECURITY_PARAM, BIP32 version words)
  Gen/GfProg.v  the body of binary_field_multiply_gf_2_128 as a ByteLang program
  Gen/Sites.v   control-flow site inventory of the constant-time functions (C18)

Files are rewritten only when their content changes (so make does not rebuild).
Anything outside the supported Rust subset raises TranslateError: the caller reports
a broken tie (never a silent fallback).
"""
import hashlib
import os
import re
import sys

REPO = os.environ.get("VERIF_REPO", "/repo")
OUT = os.path.join(os.path.dirname(os.path.abspath(__file__)), "..", "coq", "Gen")


class TranslateError(Exception):
    pass


# ----------------------------------------------------------------------------- tokenizer
TOKEN_RE = re.compile(r"""
    (?P<ws>\s+|//[^\n]*|/\*.*?\*/)
  | (?P<num>0x[0-9a-fA-F_]+|[0-9][0-9_]*)(?P<suffix>u8|usize|u16|u32|u64|i8|_u64)?
  | (?P<id>[A-Za-z_][A-Za-z0-9_]*)
  | (?P<op>\.\.=|<<=|>>=|\.\.|<<|>>|\^=|\|=|&=|\+=|-=|==|!=|<=|>=|->|::|[-+*/%&|^!<>=(){}\[\];:,.\#])
""", re.X | re.S)


def tokenize(src):
    toks = []
    pos = 0
    while pos < len(src):
        m = TOKEN_RE.match(src, pos)
        if not m:
            raise TranslateError("cannot tokenize at: %r" % src[pos:pos + 30])
        pos = m.end()
        if m.group("ws"):
            continue
        if m.group("num"):
            toks.append(("num", int(m.group("num").replace("_", ""), 0)))
        elif m.group("id"):
            toks.append(("id", m.group("id")))
        else:
            toks.append(("op", m.group("op")))
    return toks


def strip_comments(src):
    return re.sub(r"//[^\n]*", "", src)


def extract_fn(src, name):
    """Return (signature, body-source) of fn `name` (brace matched)."""
    m = re.search(r"\bfn\s+" + re.escape(name) + r"\b", src)
    if not m:
        raise TranslateError("function %s not found" % name)
    i = src.index("{", m.end())
    sig = src[m.end():i]
    depth = 0
    j = i
    while True:
        ch = src[j]
        if ch == "{":
            depth += 1
        elif ch == "}":
            depth -= 1
            if depth == 0:
                break
        j += 1
    return sig, src[i + 1:j]


# ----------------------------------------------------------------------------- expression parser
class P:
    def __init__(self, toks):
        self.t = toks
        self.i = 0

    def peek(self, k=0):
        return self.t[self.i + k] if self.i + k < len(self.t) else ("eof", None)

    def next(self):
        tok = self.peek()
        self.i += 1
        return tok

    def accept(self, kind, val=None):
        tok = self.peek()
        if tok[0] == kind and (val is None or tok[1] == val):
            self.i += 1
            return tok
        return None

    def expect(self, kind, val=None):
        tok = self.accept(kind, val)
        if tok is None:
            raise TranslateError("expected %s %r, got %r (token %d)" % (kind, val, self.peek(), self.i))
        return tok

    # precedence climbing; ranges handled by the statement parser
    BIN = [["|"], ["^"], ["&"], ["<<", ">>"], ["+", "-"], ["*", "/", "%"]]

    def expr(self, level=0):
        if level == len(self.BIN):
            return self.cast()
        lhs = self.expr(level + 1)
        while self.peek()[0] == "op" and self.peek()[1] in self.BIN[level]:
            op = self.next()[1]
            rhs = self.expr(level + 1)
            lhs = ("bin", op, lhs, rhs)
        return lhs

    def cast(self):
        e = self.unary()
        while self.accept("id", "as"):
            ty = self.expect("id")[1]
            e = ("cast", ty, e)
        return e

    def unary(self):
        if self.accept("op", "-"):
            return ("neg", self.unary())
        return self.postfix()

    def postfix(self):
        e = self.atom()
        while True:
            if self.accept("op", "["):
                if self.accept("op", ".."):
                    hi = self.expr()
                    self.expect("op", "]")
                    e = ("prefix", e, hi)
                else:
                    idx = self.expr()
                    self.expect("op", "]")
                    e = ("index", e, idx)
            elif self.peek() == ("op", ".") and self.peek(1)[0] == "id":
                self.next()
                name = self.next()[1]
                self.expect("op", "(")
                args = []
                while not self.accept("op", ")"):
                    args.append(self.expr())
                    self.accept("op", ",")
                e = ("call", name, e, args)
            else:
                return e

    def atom(self):
        tok = self.next()
        if tok[0] == "num":
            return ("num", tok[1])
        if tok[0] == "id":
            return ("var", tok[1])
        if tok == ("op", "("):
            e = self.expr()
            if self.peek()[0] == "op" and self.peek()[1] in ("..", "..="):
                incl = self.next()[1] == "..="
                hi = self.expr()
                e = ("range", e, hi, incl)
            self.expect("op", ")")
            return ("paren", e)
        if tok == ("op", "&"):
            return self.unary()
        raise TranslateError("unexpected token %r" % (tok,))


# ----------------------------------------------------------------------------- GF(2^128) program
class GfTranslator:
    def __init__(self, sig, body):
        self.consts = {}
        self.arrays = []        # (name, length)
        self.ctrs = []          # loop counter names (de Bruijn levels)
        self.locals = []
        self.result = None
        m = re.findall(r"(\w+)\s*:\s*&\s*\[\s*u8\s*;\s*(\d+)\s*\]", sig)
        if not m:
            raise TranslateError("unsupported signature: %s" % sig)
        for name, ln in m:
            self.arrays.append((name, int(ln)))
        self.nparams = len(self.arrays)
        r = re.search(r"->\s*\[\s*u8\s*;\s*(\d+)\s*\]", sig)
        if not r:
            raise TranslateError("unsupported return type")
        self.retlen = int(r.group(1))
        self.p = P(tokenize(body))

    # constant / index expressions
    def cval(self, e):
        k = e[0]
        if k == "num":
            return e[1]
        if k == "var" and e[1] in self.consts:
            return self.consts[e[1]]
        if k == "paren":
            return self.cval(e[1])
        if k == "bin":
            a, b = self.cval(e[2]), self.cval(e[3])
            if a is None or b is None:
                return None
            return {"+": a + b, "-": a - b, "*": a * b, "/": a // b if b else None,
                    "<<": a << b, ">>": a >> b}.get(e[1])
        return None

    def iexp(self, e):
        v = self.cval(e)
        if v is not None:
            if v < 0:
                raise TranslateError("negative constant index")
            return "(IConst %d)" % v
        k = e[0]
        if k == "var":
            if e[1] in self.ctrs:
                return "(IVar %d)" % self.ctrs.index(e[1])
            raise TranslateError("index expression uses non-counter %s" % e[1])
        if k == "paren":
            return self.iexp(e[1])
        if k == "bin" and e[1] in "+-":
            return "(%s %s %s)" % ("IAdd" if e[1] == "+" else "ISub", self.iexp(e[2]), self.iexp(e[3]))
        raise TranslateError("unsupported index expression %r" % (e,))

    def arr(self, e):
        if e[0] == "var":
            for i, (n, _) in enumerate(self.arrays):
                if n == e[1]:
                    return i
        raise TranslateError("not an array: %r" % (e,))

    def bexp(self, e):
        k = e[0]
        if k == "num":
            if not 0 <= e[1] < 256:
                raise TranslateError("byte literal out of range")
            return "(BConst %d)" % e[1]
        if k == "paren":
            return self.bexp(e[1])
        if k == "var":
            if e[1] in self.locals:
                return "(BLocal %d)" % self.locals.index(e[1])
            raise TranslateError("unknown byte variable %s" % e[1])
        if k == "index":
            return "(BGet %d %s)" % (self.arr(e[1]), self.iexp(e[2]))
        if k == "bin":
            op = e[1]
            if op in ("<<", ">>"):
                return "(%s %s %s)" % ("BShl" if op == "<<" else "BShr", self.bexp(e[2]), self.iexp(e[3]))
            if op in "&|^":
                return "(%s %s %s)" % ({"&": "BAnd", "|": "BOr", "^": "BXor"}[op], self.bexp(e[2]), self.bexp(e[3]))
            raise TranslateError("unsupported byte operator %s" % op)
        if k == "cast" and e[1] == "u8":
            inner = e[2]
            # -(X as i8) as u8
            if inner[0] == "neg":
                x = inner[1]
                while x[0] == "paren":
                    x = x[1]
                if x[0] == "cast" and x[1] == "i8":
                    return "(BNeg %s)" % self.bexp(x[2])
            raise TranslateError("unsupported cast to u8")
        raise TranslateError("unsupported byte expression %r" % (e,))

    def block(self):
        """Parse statements until '}' or eof; returns a stmt term."""
        p = self.p
        stmts = []
        while p.peek()[0] != "eof" and p.peek() != ("op", "}"):
            if p.accept("id", "const"):
                name = p.expect("id")[1]
                p.expect("op", ":")
                p.expect("id")
                p.expect("op", "=")
                v = self.cval(p.expr())
                if v is None:
                    raise TranslateError("non-constant const")
                self.consts[name] = v
                p.expect("op", ";")
                continue
            if p.accept("id", "let"):
                if p.accept("id", "mut"):
                    name = p.expect("id")[1]
                    p.expect("op", "=")
                    p.expect("op", "[")
                    init = p.next()
                    if init != ("num", 0):
                        raise TranslateError("array initialiser must be 0u8")
                    p.expect("op", ";")
                    ln = self.cval(p.expr())
                    p.expect("op", "]")
                    p.expect("op", ";")
                    if ln is None:
                        raise TranslateError("array length not constant")
                    if self.ctrs:
                        raise TranslateError("array declared inside a loop")
                    self.arrays.append((name, ln))
                    continue
                name = p.expect("id")[1]
                p.expect("op", "=")
                e = self.bexp(p.expr())
                p.expect("op", ";")
                self.locals.append(name)
                body = self.block_rest()
                self.locals.pop()
                stmts.append("(SLet %s %s)" % (e, body))
                break
            if p.accept("id", "for"):
                var = p.expect("id")[1]
                p.expect("id", "in")
                rng = p.expr()
                rev = False
                if rng[0] == "call" and rng[1] == "rev" and not rng[3]:
                    rev = True
                    rng = rng[2]
                while rng[0] == "paren":
                    rng = rng[1]
                if rng[0] != "range":
                    # unparenthesised a..b : parse_range handled below
                    raise TranslateError("unsupported loop range %r" % (rng,))
                lo, hi, incl = rng[1], rng[2], rng[3]
                lo_t = self.iexp(lo)
                hi_t = self.iexp(("bin", "+", hi, ("num", 1))) if incl else self.iexp(hi)
                p.expect("op", "{")
                self.ctrs.append(var)
                body = self.block()
                self.ctrs.pop()
                p.expect("op", "}")
                stmts.append("(SFor %s %s %s %s)" % ("true" if rev else "false", lo_t, hi_t, body))
                continue
            # assignment / copy / final expression
            e = p.expr()
            if e[0] == "call" and e[1] == "copy_from_slice" and e[2][0] == "prefix":
                dst = self.arr(e[2][1])
                ln = self.cval(e[2][2])
                src = self.arr(e[3][0])
                if ln is None:
                    raise TranslateError("copy length not constant")
                stmts.append("(SCopy %d %d %d)" % (dst, ln, src))
                p.accept("op", ";")
                continue
            if e[0] == "call" and e[1] == "unwrap" and e[2][0] == "call" and e[2][1] == "try_into" \
                    and e[2][2][0] == "prefix":
                arr = self.arr(e[2][2][1])
                ln = self.cval(e[2][2][2])
                if ln != self.retlen:
                    raise TranslateError("result slice length %r differs from return type %d (try_into would panic)"
                                         % (ln, self.retlen))
                self.result = (arr, ln)
                if p.peek()[0] != "eof":
                    raise TranslateError("code after the result expression")
                break
            if e[0] != "index":
                raise TranslateError("unsupported statement starting with %r" % (e,))
            a, ix = self.arr(e[1]), self.iexp(e[2])
            if a < self.nparams:
                raise TranslateError("assignment to a parameter")
            op = p.next()
            if op[0] != "op" or op[1] not in ("=", "^=", "<<=", ">>=", "|=", "&="):
                raise TranslateError("unsupported assignment operator %r" % (op,))
            rhs = p.expr()
            p.accept("op", ";")
            cur = "(BGet %d %s)" % (a, ix)
            if op[1] == "=":
                stmts.append("(SSet %d %s %s)" % (a, ix, self.bexp(rhs)))
            elif op[1] == "^=":
                stmts.append("(SXor %d %s %s)" % (a, ix, self.bexp(rhs)))
            elif op[1] in ("<<=", ">>="):
                stmts.append("(SSet %d %s (%s %s %s))" % (a, ix, "BShl" if op[1] == "<<=" else "BShr", cur, self.iexp(rhs)))
            else:
                stmts.append("(SSet %d %s (%s %s %s))" % (a, ix, "BOr" if op[1] == "|=" else "BAnd", cur, self.bexp(rhs)))
        return self.seq(stmts)

    def block_rest(self):
        return self.block()

    @staticmethod
    def seq(stmts):
        if not stmts:
            return "SSkip"
        t = stmts[-1]
        for s in reversed(stmts[:-1]):
            t = "(SSeq %s\n   %s)" % (s, t)
        return t


def fix_ranges(toks):
    """`for i in A..B {`  ->  `for i in (A..B) {` so that the expression parser sees a parenthesised range."""
    out = []
    i = 0
    while i < len(toks):
        out.append(toks[i])
        if toks[i] == ("id", "in") and toks[i + 1] != ("op", "("):
            j = i + 1
            depth = 0
            has_range = False
            while not (toks[j] == ("op", "{") and depth == 0):
                if toks[j] in (("op", "("), ("op", "[")):
                    depth += 1
                if toks[j] in (("op", ")"), ("op", "]")):
                    depth -= 1
                if toks[j][0] == "op" and toks[j][1] in ("..", "..=") and depth == 0:
                    has_range = True
                j += 1
            if has_range:
                out.append(("op", "("))
                out.extend(toks[i + 1:j])
                out.append(("op", ")"))
                i = j
                continue
        i += 1
    return out


def gen_gf():
    path = os.path.join(REPO, "crates/sl-oblivious/src/soft_spoken/mul_poly.rs")
    src = open(path).read()
    sig, body = extract_fn(strip_comments(src), "binary_field_multiply_gf_2_128")
    tr = GfTranslator(sig, body)
    tr.p = P(fix_ranges(tokenize(body)))
    prog = tr.block()
    if tr.result is None:
        raise TranslateError("no result expression found")
    if tr.p.peek()[0] != "eof":
        raise TranslateError("trailing tokens after function body")
    lens = [ln for _, ln in tr.arrays]
    sha = hashlib.sha256(body.encode()).hexdigest()
    names = ", ".join("%d=%s" % (i, n) for i, (n, _) in enumerate(tr.arrays))
    out = """(* GENERATED by tools/gen_model.py from %s -- do not edit.
   body sha256 %s
   arrays: %s *)
From SL Require Import Lib.Base Model.ByteLang.
Local Open Scope N_scope.

Definition gf_nparams : nat := %d.
Definition gf_arr_lens : list N := [%s].
Definition gf_result_arr : nat := %d.
Definition gf_result_len : nat := %d.

Definition gf_body : stmt :=
  %s.

Definition gf_init (a b : list N) : env :=
  {| arrs := a :: b :: map (fun n => repeat 0 (N.to_nat n)) (skipn 2 gf_arr_lens);
     locals := []; ctrs := [] |}.

Definition gf_prog (a b : list N) : list N :=
  firstn gf_result_len (nth gf_result_arr (arrs (run gf_body (gf_init a b))) []).
""" % (os.path.relpath(path, REPO), sha, names, tr.nparams, "; ".join(map(str, lens)),
       tr.result[0], tr.result[1], prog)
    if tr.nparams != 2:
        raise TranslateError("expected two byte-array parameters")
    return out


# ----------------------------------------------------------------------------- constants
def rust_consts(path, mod=None):
    """Evaluate `pub const NAME: T = EXPR;` items whose expressions are integer arithmetic over
    earlier constants."""
    src = strip_comments(open(path).read())
    env = {}
    for m in re.finditer(r"\bconst\s+(\w+)\s*:\s*(usize|u8|u16|u32|u64)\s*=\s*([^;]+);", src):
        name, _, expr = m.groups()
        toks = tokenize(expr)
        p = P(toks)
        try:
            e = p.expr()
        except TranslateError:
            continue
        if p.peek()[0] != "eof":
            continue
        g = GfTranslator.__new__(GfTranslator)
        g.consts = env
        v = GfTranslator.cval(g, e)
        if v is not None:
            env[name] = v
    return env


def gen_params():
    lines = ["(* GENERATED by tools/gen_model.py -- do not edit. *)",
             "From Coq Require Import NArith List.", "Import ListNotations.", "Local Open Scope N_scope.",
             "(* use qualified, e.g. GP.LAMBDA_C; never Import (S would shadow nat's successor) *)", "Module GP.", ""]
    ob = rust_consts(os.path.join(REPO, "crates/sl-oblivious/src/params.rs"))
    for k in sorted(ob):
        lines.append("Definition %s : N := %d." % (k, ob[k]))
    # domain labels: Label::new(VERSION, n)
    csrc = strip_comments(open(os.path.join(REPO, "crates/sl-oblivious/src/constants.rs")).read())
    ver = re.search(r"const\s+VERSION\s*:\s*u16\s*=\s*(\d+)", csrc)
    lines.append("Definition LABEL_VERSION : N := %d." % int(ver.group(1)))
    for m in re.finditer(r"const\s+(\w+)\s*:\s*Label\s*=\s*Label::new\(\s*VERSION\s*,\s*(\d+)\s*\)", csrc):
        lines.append("Definition %s_ID : N := %d." % (m.group(1), int(m.group(2))))
    ve = rust_consts(os.path.join(REPO, "crates/sl-verifiable-enc/src/lib.rs"))
    for k in sorted(ve):
        lines.append("Definition VENC_%s : N := %d." % (k, ve[k]))
    msg = rust_consts(os.path.join(REPO, "crates/sl-mpc-mate/src/message.rs"))
    for k in sorted(msg):
        lines.append("Definition MSG_%s : N := %d." % (k, msg[k]))
    bsrc = open(os.path.join(REPO, "crates/sl-mpc-mate/src/bip32.rs")).read()
    for m in re.finditer(r"Prefix::(\w+)\s*=>\s*(0x[0-9a-fA-F]+)", bsrc):
        lines.append("Definition BIP32_%s : N := %d." % (m.group(1).upper(), int(m.group(2), 16)))
    lines.append("End GP.")
    return "\n".join(lines) + "\n"


# ----------------------------------------------------------------------------- C18 site inventory
CT_FUNCS = [
    # (coq name, file, impl header regex or None, fn name)
    ("paillier_encrypt_with_r", "crates/sl-paillier/src/lib.rs", None, "encrypt_with_r"),
    ("paillier_decrypt", "crates/sl-paillier/src/lib.rs", None, "decrypt"),
    ("paillier_h", "crates/sl-paillier/src/lib.rs", None, "h"),
    ("paillier_mp", "crates/sl-paillier/src/lib.rs", None, "mp"),
    ("paillier_decrypt_fast", "crates/sl-paillier/src/lib.rs", None, "decrypt_fast"),
    ("paillier_extract_n_root", "crates/sl-paillier/src/lib.rs", None, "extract_n_root"),
    ("paillier_decompose", "crates/sl-paillier/src/lib.rs", None, "decompose"),
    ("paillier_recombine", "crates/sl-paillier/src/lib.rs", None, "recombine"),
    ("paillier_add", "crates/sl-paillier/src/lib.rs", None, "add"),
    ("paillier_mul", "crates/sl-paillier/src/lib.rs", None, "mul"),
    ("paillier_mul_vartime", "crates/sl-paillier/src/lib.rs", None, "mul_vartime"),
    ("pprf_eval", "crates/sl-oblivious/src/soft_spoken/all_but_one.rs", None, "eval_pprf"),
    ("ss_sender_process", "crates/sl-oblivious/src/soft_spoken/soft_spoken_ot.rs", r"impl\s+SoftSpokenOTSender\b", "process"),
    ("ss_transpose", "crates/sl-oblivious/src/soft_spoken/soft_spoken_ot.rs", None, "transpose_bool_matrix"),
    ("rvole_receiver_process", "crates/sl-oblivious/src/rvole.rs", r"impl\s+RVOLEReceiver\b", "process"),
    ("rvole_sender_process", "crates/sl-oblivious/src/rvole.rs", r"impl\s+RVOLESender\b", "process"),
]

SITE_KINDS = {"for": 1, "while": 2, "loop": 3, "if": 4, "match": 5, "closure": 6, "try": 7, "return": 8,
              "shortcircuit": 9, "break": 10, "continue": 11}

ITER_METHODS = ("for_each", "map", "fold", "filter", "any", "all", "find", "position", "flat_map", "filter_map",
                "take_while", "skip_while", "try_for_each", "try_fold", "from_fn", "then", "then_some", "and_then",
                "map_err", "unwrap_or_else", "ok_or_else")


def blank_comments_and_strings(src):
    """Replace comments, string and char literals by spaces, keeping every offset and newline."""
    out = list(src)
    i = 0
    n = len(src)

    def blank(a, b):
        for k in range(a, b):
            if out[k] != "\n":
                out[k] = " "

    while i < n:
        c = src[i]
        if src.startswith("//", i):
            j = src.find("\n", i)
            j = n if j < 0 else j
            blank(i, j)
            i = j
        elif src.startswith("/*", i):
            j = src.find("*/", i + 2)
            j = n if j < 0 else j + 2
            blank(i, j)
            i = j
        elif c == '"':
            j = i + 1
            while j < n and src[j] != '"':
                j += 2 if src[j] == "\\" else 1
            blank(i + 1, j)
            i = j + 1
        elif c == "'" and i + 2 < n and (src[i + 2] == "'" or (src[i + 1] == "\\" and src.find("'", i + 2) - i <= 6)):
            j = src.find("'", i + 2 if src[i + 1] == "\\" else i + 1)
            blank(i + 1, j)
            i = j + 1
        else:
            i += 1
    return "".join(out)


def fn_span(src, impl_re, name):
    """(start offset of '{', end offset of matching '}') of fn `name` (after the impl header if given)."""
    start = 0
    if impl_re:
        m = re.search(impl_re, src)
        if not m:
            raise TranslateError("impl block %s not found" % impl_re)
        start = m.end()
    m = re.compile(r"\bfn\s+" + re.escape(name) + r"\b").search(src, start)
    if not m:
        raise TranslateError("function %s not found" % name)
    # the body brace is the first '{' at paren/bracket/angle depth 0 after the signature's parameter list
    i = src.index("(", m.end())
    depth = 0
    while True:
        ch = src[i]
        if ch in "([":
            depth += 1
        elif ch in ")]":
            depth -= 1
        elif ch == "{" and depth == 0:
            break
        i += 1
    b = i
    depth = 0
    while True:
        ch = src[i]
        if ch == "{":
            depth += 1
        elif ch == "}":
            depth -= 1
            if depth == 0:
                return b, i
        i += 1


def header_text(body, i):
    """text from offset i up to the '{' that opens the block (paren/bracket depth 0)."""
    depth = 0
    j = i
    while j < len(body):
        ch = body[j]
        if ch in "([":
            depth += 1
        elif ch in ")]":
            depth -= 1
        elif ch == "{" and depth == 0:
            return body[i:j], j
        elif ch == ";" and depth == 0:
            return body[i:j], None
        j += 1
    return body[i:], None


def scan_sites(src, b, e):
    body = src[b:e + 1]
    sites = []
    pat = re.compile(r"\b(for|while|loop|if|match|return|break|continue)\b|(\?)|(&&|\|\|)|\.\s*(%s)\s*\(|\b(array::from_fn)\s*\("
                     % "|".join(ITER_METHODS))
    for m in pat.finditer(body):
        off = b + m.start()
        line = src.count("\n", 0, off) + 1
        if m.group(1):
            kw = m.group(1)
            if kw in ("for", "while", "if", "match", "loop"):
                text, brace = header_text(body, m.start())
                body_line = (src.count("\n", 0, b + brace) + 1) if brace is not None else line
                body_col = (b + brace - src.rfind("\n", 0, b + brace)) if brace is not None else 0
                anchor = (b + brace) if (kw == "if" and brace is not None) else off
                sites.append((kw, " ".join(text.split()), line, body_line, body_col, anchor))
            else:
                sites.append((kw, kw, line, line, 0, off - 1))
        elif m.group(2):
            # `?` : skip `?Sized`-style bounds (not inside bodies here)
            sites.append(("try", "?", line, line, 0, off))
        elif m.group(3):
            if m.group(3) == "||" and re.match(r"\|\|\s*(\{|[A-Za-z_])", body[m.start():]) and \
                    re.search(r"[(,=]\s*$", body[:m.start()]):
                continue  # empty closure parameter list
            sites.append(("shortcircuit", m.group(3), line, line, 0, off))
        else:
            name = m.group(4) or m.group(5)
            # only adaptor calls that take a closure
            rest = body[m.end():m.end() + 40].lstrip()
            if rest.startswith("|") or rest.startswith("move"):
                k1 = body.index("|", m.end())
                k2 = body.index("|", k1 + 1)
                sites.append(("closure", name, line, line, 0, b + k2))
    return sites


def site_hash(text):
    return int.from_bytes(hashlib.sha256(text.encode()).digest()[:6], "big")


def gen_sites():
    lines = ["(* GENERATED by tools/gen_model.py -- do not edit.",
             "   Control-flow site inventory of the functions property C18 names: every if/match/while/for/loop,",
             "   closure-taking iterator adaptor, `?`, return/break/continue and short-circuit operator, keyed by",
             "   (kind, ordinal of that kind within the function, hash of the whitespace-normalised header text). *)",
             "From Coq Require Import NArith List.", "Import ListNotations.", "Local Open Scope N_scope.", "Module Sites.", ""]
    side = {}
    for coqname, path, impl_re, fn in CT_FUNCS:
        raw = open(os.path.join(REPO, path)).read()
        src = blank_comments_and_strings(raw)
        b, e = fn_span(src, impl_re, fn)
        sites = scan_sites(src, b, e)
        counters = {}
        entries = []
        side[coqname] = {"file": path, "fn": fn, "line_start": src.count("\n", 0, b) + 1, "line_end": src.count("\n", 0, e) + 1,
                         "sites": []}
        for kind, text, line, body_line, body_col, anchor in sites:
            k = counters.get(kind, 0)
            counters[kind] = k + 1
            h = site_hash(kind + ":" + text)
            entries.append("  (* %s #%d: %s *) (%d, %d, %d)" % (kind, k, text.replace("*)", "* )")[:100], SITE_KINDS[kind], k, h))
            side[coqname]["sites"].append({"kind": kind, "ordinal": k, "hash": h, "text": text, "line": line,
                                           "body_line": body_line, "body_col": body_col,
                                           "anchor_line": src.count("\n", 0, anchor) + 1,
                                           "anchor_col": anchor - src.rfind("\n", 0, anchor)})
        lines.append("Definition %s : list (N * N * N) := [" % coqname)
        lines.append(";\n".join(entries))
        lines.append("].\n")
    lines.append("End Sites.")
    import json
    os.makedirs(os.path.join(OUT, "..", "..", "build"), exist_ok=True)
    json.dump(side, open(os.path.join(OUT, "..", "..", "build", "sites.json"), "w"), indent=1)
    return "\n".join(lines) + "\n"


def write_if_changed(name, content):
    os.makedirs(OUT, exist_ok=True)
    path = os.path.join(OUT, name)
    old = open(path).read() if os.path.exists(path) else None
    if old != content:
        open(path, "w").write(content)
        return True
    return False


GENERATORS = {"Params.v": gen_params, "GfProg.v": gen_gf, "Sites.v": gen_sites}


def main(argv):
    which = argv[1:] or list(GENERATORS)
    rc = 0
    for name in which:
        try:
            changed = write_if_changed(name, GENERATORS[name]())
            print("gen %s: %s" % (name, "updated" if changed else "unchanged"))
        except TranslateError as ex:
            print("gen %s: TRANSLATE-ERROR %s" % (name, ex))
            rc = 2
    return rc


if __name__ == "__main__":
    sys.exit(main(sys.argv))
