#!/usr/bin/env python3
"""Print the markdown table of seeded changes (seeded/*/m*/meta.json) for DESIGN.md section 11.3."""
import glob, json, os, re
rows = []
for f in sorted(glob.glob("/verif/seeded/*/m*/meta.json"), key=lambda p: (p.split("/")[3], int(re.sub(r"\D", "", p.split("/")[4]) or 0))):
    m = json.load(open(f))
    d = os.path.dirname(f)
    head = ""
    notes = os.path.join(d, "notes.md")
    if os.path.exists(notes):
        for l in open(notes):
            if l.startswith("#"):
                head = l.lstrip("# ").strip()
                break
    rows.append("| %s/%s | %s | %s |" % (m.get("property"), os.path.basename(d), head.replace("|", "/")[:150],
                                        str(m.get("result_final", m.get("result"))).replace("|", "/").replace("\n", " ")[:260]))
print("| Seed | Change | Outcome of the check |\n|---|---|---|")
print("\n".join(rows))
