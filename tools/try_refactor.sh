#!/bin/sh
# try_refactor.sh <patch.diff> <PROP> [<PROP> ...]: apply a behaviour-preserving change to /repo, run the quick checks of the
# named properties (no alarm is expected unless the change breaks a T1 tie), undo.  Holds the repo lock exclusively.
D=$(readlink -f "$1"); shift
exec 9>/repo/.git/verif-repo.lock
flock -x 9
if [ -n "$(git -C /repo status --short --untracked-files=no)" ]; then echo "/repo is not clean"; exit 2; fi
git -C /repo apply "$D" || { echo "patch does not apply: $D"; exit 2; }
for P in "$@"; do
  rm -f /verif/replays/$P-*
  VERIF_REPO_LOCKED=1 timeout 3000 /verif/bin/vcheck $P --tier quick 2>&1 | cut -c1-260 | tail -3 | sed "s#^#  [$P] #"
  for f in /verif/replays/$P-*.json; do [ -f "$f" ] && python3 -c "
import json,sys;e=json.load(open('$f'));print('    replay:',e.get('what','')[:300].replace('\n',' '),'| found_input:',e.get('failing_input_found'))"; done
  rm -f /verif/replays/$P-*
  git -C /verif checkout -- evidence/$P.json 2>/dev/null
done
git -C /repo checkout -- .
