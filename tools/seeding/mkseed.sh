#!/bin/sh
# mkseed.sh <PROP> <crate> <round>
P=$1; C=$2; R=${3:-2}
W=/tmp/wt$R-$P
git -C /repo worktree add --detach $W HEAD >/dev/null 2>&1
mkdir -p $W/_mutants
python3 - "$P" <<'PY'
import json,sys
for l in open('/verif/properties.jsonl'):
    p=json.loads(l)
    if p['id']==sys.argv[1]:
        open('/tmp/prop-%s.json'%p['id'],'w').write(json.dumps(p,indent=1))
PY
python3 /tmp/seed_prompt.py $P $C | sed "s#/tmp/wt-$P#$W#g" > /tmp/prompt$R-$P.txt
cat >> /tmp/prompt$R-$P.txt <<'EOF'

Additional guidance for this round: favour SUBTLE changes - ones that keep every honest/typical execution bit-identical and only differ on a narrow input class (a boundary value, a width/carry/wrap-around, a rare index, a last/first element, a specific ordering of operations, an encoding corner such as a non-canonical or over-long value), or that weaken a check so that only a specifically crafted adversarial input gets through. A change that a few dozen random honest runs compared against a reference implementation would notice is too easy. If the property has several sentences, spread the three changes over different sentences. If the crate needs features for your demo (e.g. sl-mpc-mate's `simple-relay`), say so in notes.md under a line starting with "FEATURES:".
EOF
echo $W
