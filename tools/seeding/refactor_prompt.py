import json,sys
pid, files = sys.argv[1], sys.argv[2]
p = json.load(open('/tmp/prop-%s.json'%pid))
print(f"""You are helping to evaluate a verification effort for a Rust cryptography workspace (silence-laboratories/sl-crypto). This time the goal is the OPPOSITE of bug seeding: produce up to THREE independent, realistic, HARMLESS code changes - semantics-preserving refactors / clean-ups / micro-optimisations - of the code behind the property below, such that the property still holds and the observable behaviour of every public function is EXACTLY unchanged for ALL inputs. They are used to test that the verification does not raise false alarms.

Work ONLY inside the scratch git worktree /tmp/wtr-{pid} (a checkout of the repository). Do NOT read or touch /repo or /verif or any other /tmp/wt* directory. There is no network; build with `cargo ... --offline` (CARGO_NET_OFFLINE=true).

THE PROPERTY ({pid}): {p['title']}
Statement: {p['statement']}
Files of interest: {files}

What I want for each change (r1, r2, r3), in /tmp/wtr-{pid}/_refactors/rK/:
  * patch.diff - `git diff` against the worktree's HEAD (source files under crates/ only; must apply with `git apply` to a clean HEAD). A realistic maintainer change of 5-40 lines: e.g. replace an index loop by iterators (or the reverse), hoist a common subexpression, extract a helper function, rename locals, reorder independent statements, replace a match by if-let, use a different but equivalent API of the same dependency (e.g. `wrapping_add` vs `+` where no overflow is possible ONLY if you can prove it), change a comparison into its equivalent form, split a function, pre-size a Vec, etc.
  * notes.md - what was changed and a short argument why behaviour is identical for all inputs.
STRICT requirements (a change that violates one is useless):
  * Bit-identical results for ALL inputs of every public function, INCLUDING: returned errors and which error, panics (do not add or remove any), the bytes of every produced message / serialisation, the ORDER and AMOUNT of randomness drawn from a caller-supplied RNG, the order of hash/transcript absorptions, contents of caller-visible output buffers, and timing-relevant structure for functions documented as constant-time (do not add secret-dependent branches or early exits; do not change how many times loops over secrets run).
  * No new dependencies, no cfg tricks, no changes to tests, public API signatures unchanged.
  * The full existing suite must pass: `cargo test --workspace --offline --lib --bins --tests` (36 tests) - run it for every change; for sl-mpc-mate relay code also run `cargo test -p sl-mpc-mate --offline --features simple-relay --lib`.
  * The three changes should touch different functions / be different in kind. At least one should restructure control flow (loops/branches) rather than only rename things.
  * After preparing each one, restore the worktree (`git checkout -- .`). Leave the worktree clean at the end (only _refactors/ untracked).
Report back (final message): for each refactor a 2-line summary and confirmation that the suite passes with it.""")
