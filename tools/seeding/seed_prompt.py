import json,sys
pid, crate = sys.argv[1], sys.argv[2]
p = json.load(open('/tmp/prop-%s.json'%pid))
print(f"""You are helping to evaluate how well a verification effort detects regressions in a Rust cryptography workspace (silence-laboratories/sl-crypto). Your job: produce up to THREE independent, realistic code changes ("seeded changes") that each BREAK the semantic property below while the workspace still compiles and ALL existing tests still pass.

Work ONLY inside the scratch git worktree /tmp/wt-{pid} (a checkout of the repository). Do NOT read or touch /repo or /verif or any other /tmp/wt-* directory. There is no network; build with `cargo ... --offline` (set CARGO_NET_OFFLINE=true). Use a separate target dir per default (the worktree's own ./target).

THE PROPERTY ({pid}): {p['title']}
Statement: {p['statement']}
Quantifier: {p['quantifier']['text']}
Why existing tests cannot settle it: {p['why_tests_cant']}
Anchors (files of interest): {json.dumps(p['anchors'])}

What I want for each change (m1, m2, m3), in /tmp/wt-{pid}/_mutants/mK/:
  * patch.diff  - `git diff` of the change against the worktree's HEAD (source files under crates/ only; must apply with `git apply` to a clean HEAD). Keep it small (a few lines) and plausible: the sort of slip or "optimisation"/"clean-up" a maintainer could make and a reviewer could miss. No changes to tests, no new dependencies, no cfg tricks, no randomness/time/env-triggered behaviour.
  * demo.rs     - an integration test file that is dropped into crates/{crate}/tests/demo.rs and run with `cargo test -p {crate} --offline --test demo` (say in notes.md if extra `--features ...` are needed). It must FAIL with the change applied and PASS on the clean HEAD. Use only the crate's public API (and its existing dependencies/dev-dependencies).
  * notes.md    - what was changed, which sentence of the property breaks, and a "Trigger" section saying exactly what is needed for it to manifest, plus the recorded outputs.

IMPORTANT requirements on the changes:
  * Each must need something SPECIFIC to manifest - an unusual/boundary input, a particular multi-step sequence, a rare value class (e.g. a carry, a specific bit pattern, a particular index), a particular protocol variant/configuration, or two cooperating sites that each look fine alone. NOT something that ordinary use or any random run would expose at once. Prefer changes that a random differential test with a few dozen random inputs would likely MISS.
  * The three changes must be different in kind and location (different functions/mechanisms).
  * With the change applied, the full existing suite must still pass: `cargo test --workspace --offline --lib --bins --tests` (36 tests; sl-paillier and sl-verifiable-enc tests take ~1-2 min). Verify this yourself for every change.
  * Verify yourself: demo fails with the change, passes without it.
  * After preparing each mutant, restore the worktree to a clean HEAD (`git checkout -- .`, remove crates/{crate}/tests/demo.rs) so the next one starts clean. Leave the worktree clean at the end (only _mutants/ untracked).

Report back (final message): for each mutant a 3-line summary (file/function changed, what breaks, trigger) and confirmation of the three runs (suite passes with change; demo fails with; demo passes without). If you could not find three, deliver fewer rather than weak ones.""")
