#!/usr/bin/env python3-vt
"""Generate Pocklington primality certificates as Coq terms for coq/Lib/Pocklington.v.

usage:  python3-vt tools/gen_prime_cert.py [hint=prime ...] [name=number ...]
        (no name=number: the secp256k1 group order and the ed25519 prime-order subgroup order)

For every number n the script prints

    Definition cert_<name> : cert := <term>.

where <term> is built from the two constructors of SL.Lib.Pocklington.cert:

    Trial                         n is certified by trial division (only used for n < TRIAL_BOUND)
    Pock (PCons p e a c (... PNil))
                                  n - 1 = F * R with F = prod p^e, (F + 1)^2 > n, the p strictly increasing,
                                  c a certificate for p, and a a witness with
                                  a^(n-1) = 1 (mod n) and gcd(a^((n-1)/p) - 1, n) = 1.

The output is DATA: nothing here is trusted.  The Coq kernel re-checks every certificate with
Pocklington.check_cert (vm_compute) and check_cert_sound turns the result into Znumtheory.prime n.
Only the factored part F needs to be found, so the large cofactor R of n - 1 is never factored completely:
prime factors are pulled out smallest first (sympy.factorint with a growing limit, then unrestricted) and the
search stops as soon as (F + 1)^2 > n.  Factors that sympy cannot find quickly can be supplied as hints (HINTS
below, or hint=... on the command line); a hint is only used after checking that it divides and passes isprime,
and whatever ends up in the certificate is re-checked by Coq anyway.  Progress is reported on stderr.
"""
import sys
from math import gcd

from sympy import factorint, isprime

TRIAL_BOUND = 1 << 20

SECP256K1_Q = 0xFFFFFFFFFFFFFFFFFFFFFFFFFFFFFFFEBAAEDCE6AF48A03BBFD25E8CD0364141
ED25519_L = 2**252 + 27742317777372353535851937790883648493

# known prime factors of n - 1 that are out of reach of sympy.factorint within minutes
HINTS = [
    198211423230930754013084525763697,  # | ED25519_L - 1 (107 bits)
    276602624281642239937218680557139826668747,  # | ED25519_L - 1 (138 bits)
]


def partial_factor(n, m):
    """Return [(p, e)] sorted by p, prime p, with F = prod p^e | m and (F + 1)^2 > n.
    Tries to keep the certified primes small (cheap sub-certificates)."""
    known = {}
    rest = m
    for h in HINTS:
        if h > 1 and rest % h == 0 and isprime(h):
            while rest % h == 0:
                known[h] = known.get(h, 0) + 1
                rest //= h
    for limit in (1 << 16, 1 << 22, None):
        if rest == 1:
            break
        print("  factoring %d (limit %s)" % (rest, limit), file=sys.stderr, flush=True)
        fs = factorint(rest, limit=limit) if limit else factorint(rest)
        rest = 1
        for p, e in fs.items():
            if isprime(p):
                known[p] = known.get(p, 0) + e
            else:
                rest *= p**e
        F = 1
        for p, e in known.items():
            F *= p**e
        if (F + 1) ** 2 > n:
            break
        if rest == 1:
            break
    F = 1
    for p, e in known.items():
        F *= p**e
    if (F + 1) ** 2 <= n:
        raise RuntimeError("could not factor enough of %d - 1" % n)
    # drop large primes that are not needed (largest first), keeps sub-certificates small
    for p in sorted(known, reverse=True):
        Fp = F // p ** known[p]
        if (Fp + 1) ** 2 > n:
            F = Fp
            del known[p]
    return sorted(known.items())


def witness(n, p):
    a = 2
    while True:
        if pow(a, n - 1, n) != 1:
            raise RuntimeError("%d is not prime (Fermat base %d)" % (n, a))
        if gcd(pow(a, (n - 1) // p, n) - 1, n) == 1:
            return a
        a += 1


def cert(n, depth=0):
    if not isprime(n):
        raise RuntimeError("%d is not prime" % n)
    if n < TRIAL_BOUND:
        return "Trial"
    pad = "  " * (depth + 1)
    items = []
    for p, e in partial_factor(n, n - 1):
        items.append((p, e, witness(n, p), cert(p, depth + 1)))
    s = "PNil"
    for p, e, a, c in reversed(items):
        c = c if c == "Trial" else "(" + c + ")"
        s = "(PCons %d %d %d %s\n%s%s)" % (p, e, a, c, pad, s)
    return "Pock\n%s%s" % (pad, s)


def main(argv):
    todo = []
    for arg in argv:
        name, val = arg.split("=", 1)
        if name == "hint":
            HINTS.append(int(val, 0))
            continue
        todo.append((name, int(val, 0)))
    if not todo:
        todo = [("secp256k1_q", SECP256K1_Q), ("ed25519_l", ED25519_L)]
    for name, n in todo:
        print("(* %s = %d = 0x%X *)" % (name, n, n))
        print("Definition cert_%s : cert :=\n  %s." % (name, cert(n)))
        print()


if __name__ == "__main__":
    main(sys.argv[1:])
