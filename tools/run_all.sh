#!/bin/sh
# run every claimed quick check on the current tree (sequentially); summary at the end
cd "$(dirname "$0")/.."
rm -f build/run_all.log
for p in $(python3 -c "import json; print(' '.join(c['property_id'] for c in json.load(open('MANIFEST.json'))['checks']))"); do
  timeout 3000 bin/vcheck $p --tier ${1:-quick} 2>&1 | tail -2 | tee -a build/run_all.log
done
grep -c "0 violation" build/run_all.log
