#!/usr/bin/env python3
"""Coverage-counter analysis for C18 (see DESIGN.md 5, C18).
   counters(profraw) -> {function name: (hash, [block counts])} via llvm-profdata (nightly toolchain)."""
import glob
import json
import os
import re
import subprocess

TOOLS = glob.glob(os.path.expanduser("~/.rustup/toolchains/nightly-x86_64-unknown-linux-gnu/lib/rustlib/*/bin"))
PROFDATA = os.path.join(TOOLS[0], "llvm-profdata") if TOOLS else "llvm-profdata"
LLVMCOV = os.path.join(TOOLS[0], "llvm-cov") if TOOLS else "llvm-cov"

# crates whose functions are compared between secret variants
CRATES = ("sl_paillier", "sl_oblivious", "crypto_bigint", "k256", "merlin", "keccak", "subtle", "elliptic_curve",
          "primeorder", "ff", "group")


def merge(profraw):
    out = profraw[:-len(".profraw")] + ".profdata"
    subprocess.run([PROFDATA, "merge", "-sparse", profraw, "-o", out], check=True,
                   stdout=subprocess.DEVNULL, stderr=subprocess.DEVNULL)
    return out


def counters(profraw):
    pd = merge(profraw)
    txt = subprocess.run([PROFDATA, "show", "--all-functions", "--counts", pd], check=True,
                         stdout=subprocess.PIPE).stdout.decode("utf-8", "replace")
    res = {}
    name = None
    h = None
    for line in txt.split("\n"):
        m = re.match(r"^  (\S.*):$", line)
        if m:
            name = m.group(1)
            continue
        m = re.match(r"^\s+Hash: (\S+)", line)
        if m:
            h = m.group(1)
            continue
        m = re.match(r"^\s+Block counts: \[(.*)\]", line)
        if m and name is not None:
            cnts = [int(x) for x in m.group(1).split(",") if x.strip()]
            res[name + "#" + str(h)] = cnts
            continue
        m = re.match(r"^\s+Function count: (\d+)", line)
        if m and name is not None:
            res.setdefault(name + "#" + str(h) + "#entry", [int(m.group(1))])
    return res


def relevant(fn):
    return any(c in fn for c in CRATES)


def diff(a, b):
    """functions (of the compared crates) whose counters differ between two windows"""
    out = []
    for k in sorted(set(a) | set(b)):
        if not relevant(k):
            continue
        if a.get(k) != b.get(k):
            out.append((k, a.get(k), b.get(k)))
    return out


def export_regions(binary, profdata, source_file):
    """per-region execution counts of one source file: {(line, col, line_end, col_end): count (summed over instantiations)}"""
    txt = subprocess.run([LLVMCOV, "export", "-format=text", "-instr-profile=" + profdata, binary, source_file],
                         check=True, stdout=subprocess.PIPE, stderr=subprocess.DEVNULL).stdout
    data = json.loads(txt)
    regions = {}
    for exp in data.get("data", []):
        for fn in exp.get("functions", []):
            for r in fn.get("regions", []):
                ls, cs, le, ce, cnt, fid, efid, kind = r
                if kind != 0:
                    continue
                if not fn["filenames"][fid].endswith(source_file.split("/crates/")[-1]):
                    continue
                key = (ls, cs, le, ce)
                regions[key] = regions.get(key, 0) + cnt
    return regions


if __name__ == "__main__":
    import sys
    d = sys.argv[1]
    groups = {}
    for f in sorted(glob.glob(os.path.join(d, "*.profraw"))):
        base = os.path.basename(f)[:-8]
        if base.startswith("_"):
            continue
        op, v = base.rsplit("_", 1)
        groups.setdefault(op, []).append((int(v), f))
    for op, fs in groups.items():
        fs.sort()
        c0 = counters(fs[0][1])
        nrel = sum(1 for k in c0 if relevant(k) and any(c0[k]))
        for v, f in fs[1:]:
            dd = diff(c0, counters(f))
            print(op, "v0 vs v%d:" % v, len(dd), "differing functions of", nrel, "active")
            for k, x, y in dd[:6]:
                print("    ", k[:110], x[:8] if x else x, y[:8] if y else y)
