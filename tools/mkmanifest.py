#!/usr/bin/env python3
"""Regenerates /verif/MANIFEST.json from the table below.  A property is claimed only when listed in CLAIMED."""
import json
import os
import sys

ROOT = os.path.dirname(os.path.dirname(os.path.abspath(__file__)))

# properties whose check exists, passes on the unchanged tree and was exercised against mutations
CLAIMED = ["C%02d" % i for i in range(1, 21)]

T = {
 "C01": ("RVOLE algebra c+d=a*b proved in Coq for all oracles/inputs/tapes over Z mod q (both variants), and composed end to end with the "
         "Endemic base-OT, PPRF and SoftSpoken models (rvole_real_pipeline_correct: real-pipeline seeds, all tapes of all four stages); the "
         "composed executable model is run against the real protocol with real merlin/k256 behind the oracles (incl. boundary scalars, "
         "reused output buffers, both seed provenances).",
         "Coq proof (ring algebra over Z_q, any hash oracle) + extracted-model correspondence"),
 "C02": ("Acceptance of honest messages, unconditional rejection of digest changes, selective-failure characterisation of the "
         "calibrated sender, proved in Coq; security-flavoured sentences as 'accept => explicit oracle coincidence'; fault "
         "enumeration against the real receiver.",
         "Coq proof + model-level adversaries + fault enumeration as correspondence"),
 "C03": ("SoftSpoken receiver/sender modelled line by line; chosen-message equality and recorded choices proved for all oracles, seeds, "
         "choices; model run against the real code with real merlin.",
         "Coq proof over bit matrices + extracted-model correspondence"),
 "C04": ("Honest acceptance, rejection of t/x corruptions, selective-failure iff for the calibrated receiver; exhaustive bit sweep of "
         "the first-round message against the real sender as supporting enumeration.",
         "Coq proof + model-level adversary + fault enumeration"),
 "C05": ("Endemic OT over an abstract group: chosen key equal for all oracles/tapes; other key / cross-session equality => explicit oracle "
         "coincidence; session binding via query injectivity; run against the real code incl. degenerate tapes (which found and led to the "
         "repair of F9: zero ephemeral scalars).",
         "Coq proof over an abstract Z_q-module + extracted-model correspondence with real k256/merlin"),
 "C06": ("GGM tree build/eval for any depth: 15 leaves equal, punctured slot zero, digest tamper rejected, unused-side tamper harmless.",
         "Coq proof by induction on tree depth + extracted-model correspondence"),
 "C07": ("Paillier with explicit limb widths: closed form of encryption, both decryption paths invert it, paths agree, N-th root, "
         "key round trip, admission iff value < N; all keys satisfying key_ok, all widths.",
         "Coq proof (number theory over Z) + in-Coq evaluation of the model against the real crate"),
 "C08": ("add/mul closed forms mod N^2, homomorphism mod N including wrap-around, mul_vartime = mul; for every ciphertext that carries a plaintext and every expression tree of operations (hom_tree, by induction).",
         "Coq proof + in-Coq evaluation of the model against the real crate"),
 "C09": ("Cut-and-choose proof, BigUint codecs and wire format modelled; honest proofs verify and decrypt for every tape; codec round trips; "
         "security parameter modelled at usize width (refused outside 128..=256 for every value up to 2^64-1).",
         "Coq proof with RSA/SHA/group as section hypotheses + extracted-model correspondence"),
 "C10": ("Per-slot rejections, decrypt soundness, accept => recover or all unopened sides bad (one oracle point).",
         "Coq proof + model-level adversarial provers + byte-level fault enumeration"),
 "C11": ("Outcome-valued models with an explicit Panic at every indexing/unwrap/assert/expect site; 40 totality theorems (no Panic for ALL "
         "byte strings / message contents / histories): proof wire format from_bytes -> verify -> decrypt -> to_bytes, BIP32 derive_xpub and "
         "to_string for every root and path, relay frame classification and the relay with an explicit poisonable lock over all histories, "
         "Paillier key deserialisation, every process function of base OT / PPRF / OT extension / RVOLE; every entry point of the four crates "
         "is fed structured byte strings under catch_unwind (overflow checks on) and any real panic is reported with its input.",
         "Coq totality proofs + outcome-class differential fuzzing under catch_unwind"),
 "C12": ("Path walk, bookkeeping, 78-byte layout and Base58Check modelled; fields equal the BIP32 spec; child = parent + offset*G; "
         "additivity; error cases; no panic.",
         "Coq proof against an independent spec + extracted-model correspondence with real hmac/sha2/ripemd/k256"),
 "C13": ("Polynomials, factorial table, derivatives, Birkhoff coefficients, Feldman check over Z_q for all degrees.",
         "Coq proof (prime q premise) + in-Coq evaluation against the real crate"),
 "C14": ("Schnorr/Fiat-Shamir model over an abstract group and an arbitrary transcript oracle: completeness for every secret, "
         "uniqueness of the response (any change rejected), the challenge query is injective in (statement, commitment, base, context), "
         "mutation => one explicit linear equation on the fresh challenge, context binding for prime order; the extracted model is run "
         "against DLogProof::prove/verify with real merlin/k256 on honest and mutated cases.",
         "Coq proof over an abstract Z_q-module and any hash oracle + extracted-model correspondence"),
 "C15": ("Relay state machine + header codec; at most once per ask, exactly once if live, askers only, first publication wins, for all "
         "finite histories by induction.",
         "Coq proof by induction over histories + history correspondence with a virtual clock"),
 "C16": ("Retention until own TTL / max expiry, no dead entries after any operation, heap-order independence.",
         "Coq invariant proof over histories + history correspondence with a virtual clock"),
 "C17": ("Buffered wrapper as a small-step machine: conservation multiset law, id match, cancel safety, for all scripts and call sequences.",
         "Coq proof over scripts/call sequences + hand-polled futures correspondence"),
 "C18": ("Control skeletons + generated site inventory; secret-independence of branch/loop counts; coverage-counter correspondence.",
         "Coq proof about control skeletons + translator-generated site inventory + coverage-counter differential"),
 "C19": ("The body of binary_field_multiply_gf_2_128 is translated on every run into a deep-embedded byte program; Coq theorems about "
         "that generated program: panic-freedom, agreement with the shift-and-add GF(2^128) spec on all 128x128 monomial pairs (in-kernel), "
         "lifted to all 2^256 pairs by XOR-bilinearity where proved (see evidence obligation list).",
         "Coq proof about a program generated from the Rust source (translation + reflection) + differential correspondence"),
 "C20": ("Bareiss with pivoting and adjugate inverse modelled on lists over Z_q; determinant/inverse correctness for every dimension.",
         "Coq proof (MathComp determinant) + in-Coq evaluation against the real crate"),
}

NOTE = ("Trusted: Coq 8.16.1 kernel + vm_compute; tools/gen_model.py; the harness and (mode B) extraction with ExtrOcamlBasic only + the "
        "OCaml driver; uninterpreted hash/group/RSA functions are section hypotheses (never axioms) instantiated by the real crates in "
        "the correspondence; details per property in evidence/<id>.json (trusted_base, assumptions, axioms).")


def main():
    props = [json.loads(l) for l in open(os.path.join(ROOT, "properties.jsonl"))]
    checks = []
    na = []
    for p in props:
        pid = p["id"]
        text, tech = T[pid]
        if pid in CLAIMED:
            checks.append({
                "property_id": pid,
                "quick_cmd": "bin/vcheck %s --tier quick" % pid,
                "thorough_cmd": "bin/vcheck %s --tier thorough" % pid,
                "evidence_file": "/verif/evidence/%s.json" % pid,
                "replay_cmd_template": "bin/vcheck %s --replay {path}" % pid,
                "engine": "coq-proof",
                "level_claimed": {"category": "proof", "text": text, "design_ref": "DESIGN.md section 5, %s" % pid},
                "level_note": NOTE,
                "technique": tech,
            })
        else:
            na.append({"property_id": pid, "reason": "machine-checked proof applies (design in DESIGN.md section 5) but its check is "
                       "not finished/validated in this round, so it is not claimed yet"})
    m = {
        "version": 1,
        "setup_cmd": "bin/setup",
        "hooks": {"guard": "sl_crypto_verif",
                  "enable": "RUSTFLAGS=\"--cfg sl_crypto_verif\" (set for the harness crate in /verif/harness/.cargo/config.toml)",
                  "baseline_off_cmd": "cd /repo && cargo test --workspace --no-fail-fast --offline --lib --bins --tests",
                  "source_commits": ["3437acd"], "add_only": True},
        "engines": [{"name": "coq-proof", "path": "/verif/coq", "serves_properties": sorted(CLAIMED),
                     "kind_free_text": "Coq 8.16 models + theorems; T1 translator tools/gen_model.py; T2 correspondence through "
                                       "/verif/harness (in-Coq vm_compute cases or extracted OCaml driver with oracle callbacks)"}],
        "checks": checks,
        "not_applicable": na,
        "notes": "Genuine defects repaired by fix: commits in /repo are listed in known_findings.json (fixed entries suppress nothing).",
    }
    json.dump(m, open(os.path.join(ROOT, "MANIFEST.json"), "w"), indent=1)
    print("MANIFEST: %d claimed, %d not yet" % (len(checks), len(na)))


if __name__ == "__main__":
    sys.exit(main())
