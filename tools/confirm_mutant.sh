#!/bin/sh
# confirm_mutant.sh <worktree> <mutant-dir> <crate> [extra cargo args...]
# Independent confirmation of a seeded change in a scratch worktree of /repo:
#  (1) patch applies to a clean HEAD, (2) the existing suite passes with it, (3) demo fails with it, (4) demo passes without it.
WT=$1; M=$(readlink -f "$2"); CR=$3; shift 3
cd "$WT" || exit 2
export CARGO_NET_OFFLINE=true
git checkout -q -- . ; rm -rf crates/$CR/tests/demo.rs
git apply --check "$M/patch.diff" || { echo "CONFIRM: patch does not apply"; exit 1; }
git apply "$M/patch.diff"
cargo test --workspace --offline --lib --bins --tests > "$M/confirm_suite.log" 2>&1; S=$?
PASSED=$(grep -h "^test result" "$M/confirm_suite.log" | awk '{p+=$4; f+=$6} END {print p" passed "f" failed"}')
mkdir -p crates/$CR/tests; cp "$M/demo.rs" crates/$CR/tests/demo.rs
cargo test -p $CR --offline --test demo "$@" > "$M/confirm_demo_with.log" 2>&1; DW=$?
git checkout -q -- .
cargo test -p $CR --offline --test demo "$@" > "$M/confirm_demo_without.log" 2>&1; DWO=$?
rm -f crates/$CR/tests/demo.rs; rmdir crates/$CR/tests 2>/dev/null
echo "CONFIRM $(basename $(dirname $M))/$(basename $M): suite_rc=$S ($PASSED) demo_with_rc=$DW demo_without_rc=$DWO"
[ $S -eq 0 ] && [ $DW -ne 0 ] && [ $DWO -eq 0 ]
