#!/usr/bin/env python3
"""Replace the block between the SEED-TABLE markers of DESIGN.md with the current output of tools/seed_table.py."""
import re, subprocess
t = subprocess.run(["python3", "/verif/tools/seed_table.py"], stdout=subprocess.PIPE).stdout.decode()
t = "\n".join(l for l in t.splitlines() if l.startswith("|"))
p = "/verif/DESIGN.md"
s = open(p).read()
s = re.sub(r"<!-- SEED-TABLE-BEGIN -->.*?<!-- SEED-TABLE-END -->", lambda m: "<!-- SEED-TABLE-BEGIN -->\n" + t + "\n<!-- SEED-TABLE-END -->", s, flags=re.S)
open(p, "w").write(s)
print("rows:", t.count("\n") - 1)
