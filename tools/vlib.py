"""Shared machinery of bin/vcheck: translator, Coq build, assumption audit, harness build,
in-Coq case evaluation, evidence and violation reporting.  See DESIGN.md section 2."""
import fcntl
import glob
import json
import os
import re
import subprocess
import sys
import time

ROOT = os.path.dirname(os.path.dirname(os.path.abspath(__file__)))
COQ = os.path.join(ROOT, "coq")
BUILD = os.path.join(ROOT, "build")
HARNESS_BIN = os.path.join(BUILD, "cargo", "release", "sl-verif-harness")
REPO = os.environ.get("VERIF_REPO", "/repo")
NCPU = os.cpu_count() or 4

FORBIDDEN = re.compile(
    r"\b(Admitted|admit|Axiom|Axioms|Parameter|Parameters|Conjecture|Hypothesis|Hypotheses|Variable|Variables|Context|"
    r"bypass_check|vm_cast_no_check|native_cast_no_check|exact_no_check)\b|Unset\s+Guard|Unset\s+Positivity|"
    r"Unset\s+Universe\s+Checking|type-in-type|impredicative-set|Admit\s+Obligations")

# axioms of the standard library that a property may rely on when its plugin allowlists them
STDLIB_AXIOMS = {
    "functional_extensionality_dep", "proof_irrelevance", "classic", "JMeq_eq", "eq_rect_eq",
    "propositional_extensionality", "constructive_definite_description", "constructive_indefinite_description",
}


class Lock:
    def __init__(self, name):
        os.makedirs(BUILD, exist_ok=True)
        self.path = os.path.join(BUILD, name + ".lock")

    def __enter__(self):
        self.f = open(self.path, "w")
        fcntl.flock(self.f, fcntl.LOCK_EX)
        return self

    def __exit__(self, *a):
        fcntl.flock(self.f, fcntl.LOCK_UN)
        self.f.close()


def sh(cmd, timeout=None, cwd=None, env=None):
    """Run a command; returns (rc, combined output). rc 124 on timeout."""
    try:
        p = subprocess.run(cmd, shell=isinstance(cmd, str), cwd=cwd, env=env, timeout=timeout,
                           stdout=subprocess.PIPE, stderr=subprocess.STDOUT)
        return p.returncode, p.stdout.decode("utf-8", "replace")
    except subprocess.TimeoutExpired as ex:
        out = (ex.stdout or b"").decode("utf-8", "replace")
        return 124, out + "\n[timeout after %ss]" % timeout


# ------------------------------------------------------------------------------------------------ steps
def gen_model(which=None):
    """T1: regenerate coq/Gen from /repo. Returns (ok, log)."""
    cmd = [sys.executable, os.path.join(ROOT, "tools", "gen_model.py")] + (which or [])
    rc, out = sh(cmd, timeout=120)
    return rc == 0, out


def strip_coq_comments(src):
    out = []
    depth = 0
    i = 0
    while i < len(src):
        if src.startswith("(*", i):
            depth += 1
            i += 2
        elif src.startswith("*)", i) and depth > 0:
            depth -= 1
            i += 2
        else:
            if depth == 0:
                out.append(src[i])
            i += 1
    return "".join(out)


def in_section_spans(src):
    """Character spans of Section ... End blocks (Variable/Hypothesis are allowed only inside)."""
    spans = []
    stack = []
    for m in re.finditer(r"^\s*(Section|Module|End)\s+(\w+)\s*\.", src, re.M):
        if m.group(1) == "Section":
            stack.append((m.group(2), m.start()))
        elif m.group(1) == "End" and stack and stack[-1][0] == m.group(2):
            _, st = stack.pop()
            spans.append((st, m.end()))
    return spans


def grep_forbidden(files):
    """Scan Coq sources (comments stripped) for declarations that would add axioms or switch off checks.
    Variable/Hypothesis are accepted inside a Section only."""
    hits = []
    for f in files:
        try:
            src = strip_coq_comments(open(f).read())
        except OSError:
            continue
        spans = in_section_spans(src)
        for m in FORBIDDEN.finditer(src):
            w = m.group(0)
            if w in ("Variable", "Variables", "Hypothesis", "Hypotheses", "Context"):
                if any(a <= m.start() < b for a, b in spans):
                    continue
            line = src.count("\n", 0, m.start()) + 1
            hits.append("%s:%d: %s" % (os.path.relpath(f, ROOT), line, w))
    return hits


def coq_sources():
    return sorted(glob.glob(os.path.join(COQ, "**", "*.v"), recursive=True))


def coq_deps(target_v):
    """Transitive SL.* dependencies of a .v file (by scanning Require lines)."""
    seen = set()
    todo = [target_v]
    while todo:
        f = todo.pop()
        if f in seen or not os.path.exists(f):
            continue
        seen.add(f)
        src = strip_coq_comments(open(f).read())
        for m in re.finditer(r"From\s+SL(\.[\w.]+)?\s+Require\s+(?:Import|Export)?\s*([^.]*(?:\.[A-Za-z][^.]*)*)\.", src):
            prefix = (m.group(1) or "").lstrip(".")
            for name in m.group(2).split():
                path = (prefix + "." + name) if prefix else name
                todo.append(os.path.join(COQ, *path.split(".")) + ".v")
        for m in re.finditer(r"Require\s+(?:Import|Export)?\s+((?:SL\.[\w.]+\s*)+)\.", src):
            for name in m.group(1).split():
                todo.append(os.path.join(COQ, *name.split(".")[1:]) + ".v")
    return sorted(seen)


def coq_build(targets, timeout=1500, clean=False):
    """Full .vo build (never -vos/-vok) of the given targets (paths relative to coq/). (ok, log).
    (`clean` is accepted for compatibility and ignored: deleting shared .vo files under concurrently running checks
    caused spurious failures; the thorough tier re-checks the compiled cone with coqchk instead, see coqchk_cone.)"""
    with Lock("coq"):
        rc, out = sh([os.path.join(ROOT, "bin", "coqproject")], timeout=120)
        if rc != 0:
            return False, out
        rc, out2 = sh(["make", "-j%d" % NCPU] + list(targets), cwd=COQ, timeout=timeout)
        return rc == 0, out + out2


# modules whose proofs are minutes of vm_compute (the 128x128 basis sweep of C19): coqchk has no VM and re-evaluates such
# casts with its lazy machine, which does not finish within an hour.  They, and the modules that depend on them, are
# compiled by coqc only; coqchk re-checks the rest of the cone (models, generated program, linearity soundness, spec laws).
COQCHK_TOO_SLOW = {"Proofs/GfBasis/B%02d.v" % i for i in range(16)}


def coqchk_cone(prop_id, timeout=2400):
    """Thorough tier: independent re-check of Props/<id>.vo and everything it depends on with coqchk; returns
    (ok, axioms listed by coqchk, log).  Modules depending on COQCHK_TOO_SLOW are left to coqc (named in the log)."""
    props = os.path.join(COQ, "Props", prop_id + ".v")
    cone = coq_deps(props)
    rel = {f: os.path.relpath(f, COQ) for f in cone}
    slow = {f for f in cone if rel[f] in COQCHK_TOO_SLOW}
    targets = ["SL.Props.%s" % prop_id]
    skipped = []
    if slow:
        # everything in the cone that does not (transitively) depend on a slow module
        tainted = set(slow)
        changed = True
        deps = {f: set(coq_deps(f)) - {f} for f in cone}
        while changed:
            changed = False
            for f in cone:
                if f not in tainted and deps[f] & tainted:
                    tainted.add(f)
                    changed = True
        targets = ["SL." + rel[f][:-2].replace("/", ".") for f in cone if f not in tainted]
        skipped = sorted(rel[f] for f in tainted)
    with Lock("coq"):
        rc, out = sh(["coqchk", "-silent", "-o", "-Q", COQ, "SL"] + targets, timeout=timeout)
    if skipped:
        out += "\n[coqchk: not re-checked (vm_compute sweeps, coqc only): %s]" % ", ".join(skipped)
    axioms = []
    m = re.search(r"\* Axioms:(.*?)(?:\n\s*\n|\* |$)", out, re.S)
    if m:
        axioms = [a.strip() for a in m.group(1).strip().split("\n") if a.strip() and "<none>" not in a]
    return rc == 0, axioms, out


def theorem_names(props_file):
    src = strip_coq_comments(open(props_file).read())
    return re.findall(r"^\s*(?:Theorem|Lemma|Corollary|Example)\s+(\w+)", src, re.M)


def audit(prop_id, allowed_axioms=()):
    """Print Assumptions of every theorem of Props/<id>.v, compared with the allowlist; forbidden-token
    grep over the dependency cone. Returns dict(ok, theorems, axioms, problems, log)."""
    props = os.path.join(COQ, "Props", prop_id + ".v")
    names = theorem_names(props)
    d = os.path.join(BUILD, "audit")
    os.makedirs(d, exist_ok=True)
    f = os.path.join(d, prop_id + "_audit.v")
    with open(f, "w") as fh:
        fh.write("From SL Require Import Props.%s.\n" % prop_id)
        for n in names:
            fh.write('Goal True. idtac "@@THM %s". Abort.\nPrint Assumptions %s.\n' % (n, n))
    rc, out = sh(["coqc", "-q", "-Q", COQ, "SL", f], timeout=600)
    problems = []
    axioms = {}
    if rc != 0:
        problems.append("audit file did not compile: " + out[-400:])
    else:
        parts = re.split(r"@@THM (\w+)\n", out)
        for i in range(1, len(parts), 2):
            name, body = parts[i], parts[i + 1]
            if "Closed under the global context" in body:
                axioms[name] = []
                continue
            ax = re.findall(r"^(\S+)\s*:", body, re.M)
            axioms[name] = ax
            for a in ax:
                base = a.split(".")[-1]
                if base not in allowed_axioms:
                    problems.append("theorem %s depends on %s (not in the allowlist)" % (name, a))
        for n in names:
            if n not in axioms:
                problems.append("no Print Assumptions output for %s" % n)
    cone = coq_deps(props)
    hits = grep_forbidden(cone)
    problems += ["forbidden token " + h for h in hits]
    return {"ok": not problems, "theorems": names, "axioms": axioms, "problems": problems, "log": out,
            "cone": [os.path.relpath(c, ROOT) for c in cone]}


def harness_build(timeout=1500):
    env = dict(os.environ)
    env["CARGO_NET_OFFLINE"] = "true"
    with Lock("cargo"):
        rc, out = sh(["cargo", "build", "--release", "--offline"], cwd=os.path.join(ROOT, "harness"),
                     timeout=timeout, env=env)
    return rc == 0, out


def harness(prop, args, timeout=1800):
    cmd = [HARNESS_BIN, prop] + ["%s=%s" % kv for kv in args.items()]
    pf = os.path.join(str(args.get("out", "")), "harness_panic.txt")
    if os.path.exists(pf):
        os.remove(pf)
    return sh(cmd, timeout=timeout)


def harness_panic(run):
    """An uncaught panic of the real code inside the harness: (announced case, panic message) or None."""
    pf = os.path.join(run.dir, "harness_panic.txt")
    if not os.path.exists(pf):
        return None
    txt = open(pf).read()
    m = re.match(r"case=(.*?) :: (.*)", txt, re.S)
    return (m.group(1).strip(), m.group(2).strip()[:600]) if m else ("", txt[:600])


# ------------------------------------------------------------------------------------------------ in-Coq evaluation
def coq_eval_cases(corr_module, case_terms, run_dir, shard=400, timeout=900, header="", check="check_case"):
    """Evaluate `bad_indices <check> [cases]` inside Coq, sharded over parallel coqc processes.
    case_terms: list of Coq terms of type `case` of SL.Corr.<corr_module>.
    Returns (ok, bad_global_indices, log)."""
    os.makedirs(run_dir, exist_ok=True)
    for old in glob.glob(os.path.join(run_dir, "cases_*.v")) + glob.glob(os.path.join(run_dir, "cases_*.vo")) \
            + glob.glob(os.path.join(run_dir, "cases_*.glob")) + glob.glob(os.path.join(run_dir, ".cases_*.aux")):
        os.remove(old)
    files = []
    for k in range(0, len(case_terms), shard):
        f = os.path.join(run_dir, "cases_%04d.v" % (k // shard))
        with open(f, "w") as fh:
            fh.write("From SL Require Import Lib.Base Corr.%s.\nLocal Open Scope N_scope.\n%s\n" % (corr_module, header))
            fh.write("Definition cases : list case := [\n")
            fh.write(";\n".join(case_terms[k:k + shard]))
            fh.write("\n].\n")
            fh.write('Goal True. idtac "@@BAD". Abort.\n')
            fh.write("Eval vm_compute in (bad_indices %s cases).\n" % check)
        files.append((k, f))
    procs = []
    bad = []
    log = []
    ok = True
    pending = list(files)
    running = []
    while pending or running:
        while pending and len(running) < NCPU:
            k, f = pending.pop(0)
            p = subprocess.Popen(["timeout", str(timeout), "coqc", "-q", "-noglob", "-Q", COQ, "SL", f],
                                 stdout=subprocess.PIPE, stderr=subprocess.STDOUT)
            running.append((k, f, p))
        k, f, p = running.pop(0)
        out = p.communicate()[0].decode("utf-8", "replace")
        if p.returncode != 0:
            ok = False
            log.append("%s: coqc failed rc=%d: %s" % (os.path.basename(f), p.returncode, out[-600:]))
            continue
        m = re.search(r"@@BAD\s*=\s*\[(.*?)\]\s*:\s*list N", out, re.S)
        if not m:
            ok = False
            log.append("%s: cannot parse output: %s" % (os.path.basename(f), out[-300:]))
            continue
        for tok in re.findall(r"(\d+)%N|(\d+)", m.group(1)):
            bad.append(k + int(tok[0] or tok[1]))
    return ok, sorted(bad), "\n".join(log)


def coq_eval_terms(imports, terms, run_dir, timeout=600, name="eval"):
    """Evaluate arbitrary closed terms with vm_compute; returns list of raw printed results (strings)."""
    os.makedirs(run_dir, exist_ok=True)
    f = os.path.join(run_dir, name + ".v")
    with open(f, "w") as fh:
        fh.write(imports + "\nSet Printing Width 1000000.\nSet Printing Depth 1000000.\n")
        for t in terms:
            fh.write('Goal True. idtac "@@T". Abort.\nEval vm_compute in (%s).\n' % t)
    rc, out = sh(["coqc", "-q", "-noglob", "-Q", COQ, "SL", f], timeout=timeout)
    if rc != 0:
        return None, out
    res = []
    for part in out.split("@@T\n")[1:]:
        m = re.match(r"\s*=\s*(.*?)\n\s*:\s", part, re.S)
        res.append(m.group(1).strip() if m else part.strip())
    return res, out


def coq_bytes(b):
    return "[" + ";".join(str(x) for x in b) + "]"


# ------------------------------------------------------------------------------------------------ reporting
class Run:
    """One invocation of a check: collects obligations, correspondence numbers, violations, evidence."""

    def __init__(self, prop_id, tier, seed):
        self.id = prop_id
        self.tier = tier
        self.seed = seed
        self.t0 = time.time()
        self.obligations = []       # (name, discharged: bool)
        self.evaluations = 0
        self.nontrivial = 0
        self.rule = ""
        self.samples = []
        self.trusted = []
        self.assumptions = []
        self.extra = {}
        self.violations = []        # (replay dict, found_input: bool)
        self.known = []
        self.dir = os.path.join(BUILD, "run", prop_id)
        os.makedirs(self.dir, exist_ok=True)
        self.checker_cmd = "make -C coq Props/%s.vo (full .vo build) + coqc Print Assumptions audit" % prop_id
        self.exhaustive = None

    def oblige(self, name, ok):
        self.obligations.append((name, bool(ok)))

    def violation(self, what, replay, found_input=True):
        self.violations.append((what, replay, found_input))

    def load_known(self):
        p = os.path.join(ROOT, "known_findings.json")
        try:
            return json.load(open(p))
        except OSError:
            return {"known": [], "fixed": []}

    def finish(self):
        kf = self.load_known()
        os.makedirs(os.path.join(ROOT, "replays"), exist_ok=True)
        os.makedirs(os.path.join(ROOT, "evidence"), exist_ok=True)
        lines = []
        nviol = 0
        # a violation shown with a concrete failing input subsumes the reports that only name a broken theorem / tie
        # (their text is kept inside the replay file of the first concrete one)
        known_keys = {k.get("key") for k in kf.get("known", []) if k.get("property") == self.id}
        is_known = lambda v: bool(v[1].get("finding_key")) and v[1].get("finding_key") in known_keys
        concrete = [v for v in self.violations if v[2] and not is_known(v)]
        if concrete:
            broken = [v[0] for v in self.violations if not v[2]]
            if broken:
                what, replay, found = concrete[0]
                replay = dict(replay)
                replay["also_broken"] = broken
                concrete[0] = (what, replay, found)
            self.violations = [v for v in self.violations if is_known(v)] + concrete
        for n, (what, replay, found) in enumerate(self.violations):
            key = replay.get("finding_key")
            match = [k for k in kf.get("known", []) if k.get("property") == self.id and key and k.get("key") == key]
            if match:
                lines.append("KNOWN-FINDING: property=%s %s" % (self.id, match[0].get("what", key)))
                continue
            nviol += 1
            path = os.path.join(ROOT, "replays", "%s-%d-%d.json" % (self.id, self.seed, n))
            replay = dict(replay)
            replay.update({"property": self.id, "what": what, "seed": self.seed, "tier": self.tier,
                           "failing_input_found": found})
            json.dump(replay, open(path, "w"), indent=1)
            lines.append("VIOLATION property=%s replay=%s%s" % (self.id, path, "" if found else " no-failing-input-found"))
        ob = len(self.obligations)
        dis = sum(1 for _, ok in self.obligations if ok)
        cov = {
            "obligations": max(ob, 1), "discharged": dis if ob else 0,
            "obligation_list": [{"name": n, "discharged": ok} for n, ok in self.obligations],
            "checker_cmd": self.checker_cmd,
            "trusted_base": self.trusted,
            "evaluations": self.evaluations, "distinct_nontrivial": self.nontrivial, "rule": self.rule,
            "samples": self.samples[:8] or ["(no correspondence cases in this run)"],
        }
        if self.exhaustive is not None:
            # the schema wants a boolean; a description of the finite space that was enumerated completely goes beside it
            if isinstance(self.exhaustive, bool):
                cov["exhaustive"] = self.exhaustive
            else:
                cov["exhaustive"] = True
                cov["exhaustive_scope"] = self.exhaustive
        cov.update(self.extra)
        ev = {"property_id": self.id, "tier": self.tier, "seed": self.seed, "level": "proof", "coverage": cov,
              "assumptions": self.assumptions, "wall_s": round(time.time() - self.t0, 2), "violations": nviol}
        json.dump(ev, open(os.path.join(ROOT, "evidence", self.id + ".json"), "w"), indent=1)
        for l in lines:
            print(l)
        print("%s %s: obligations %d/%d, correspondence %d cases (%d non-trivial), %d violation(s), %.1fs" %
              (self.id, self.tier, dis, ob, self.evaluations, self.nontrivial, nviol, time.time() - self.t0))
        return 1 if nviol else 0


def standard_front(run, prop_id, targets=None, allowed_axioms=(), gen=None, clean=False, build_timeout=1500):
    """Steps 1-4 common to all properties: translator, proof build, audit, harness build.
    Returns dict with flags; obligations are registered on `run`."""
    res = {}
    ok, log = gen_model(gen)
    res["gen_ok"], res["gen_log"] = ok, log
    run.oblige("T1 translator regenerates coq/Gen from /repo", ok)
    targets = targets or ["Props/%s.vo" % prop_id, "Corr/%s.vo" % prop_id]
    targets = [t for t in targets if os.path.exists(os.path.join(COQ, t[:-1]))]
    bok, blog = coq_build(targets, timeout=build_timeout, clean=clean)
    res["build_ok"], res["build_log"] = bok, blog
    if bok:
        a = audit(prop_id, allowed_axioms)
        res["audit"] = a
        for n in a["theorems"]:
            bad = [p for p in a["problems"] if (" %s " % n) in p]
            run.oblige("theorem " + n, not bad)
        if a["problems"]:
            for p in a["problems"]:
                if p.startswith("forbidden") or p.startswith("audit") or p.startswith("no Print"):
                    run.oblige(p, False)
        run.extra["axioms"] = a["axioms"]
        run.extra["proof_cone"] = a["cone"]
        if run.tier == "thorough":
            cok, cax, clog = coqchk_cone(prop_id)
            # kernel primitives (native 63-bit integers, floats, arrays) are printed by coqchk among the axioms of every
            # library that loads them; they are not axioms of this development
            prim = ("Coq.Numbers.Cyclic.Int63.PrimInt63.", "Coq.Floats.PrimFloat.", "Coq.Array.PArray.", "Coq.Floats.FloatClass.")
            run.extra["coqchk_kernel_primitives"] = sorted(x for x in cax if x.startswith(prim))
            cax = [x for x in cax if not x.startswith(prim)]
            bad_ax = [x for x in cax if x.split(".")[-1] not in allowed_axioms]
            sk = re.search(r"\[coqchk: not re-checked[^\]]*\]", clog)
            run.oblige("coqchk -o re-check of the compiled cone of Props/%s.vo%s" % (prop_id, (" " + sk.group(0)) if sk else ""),
                       cok and not bad_ax)
            run.extra["coqchk_axioms"] = cax
            if not cok:
                run.extra["coqchk_log"] = clog[-1200:]
            res["coqchk_ok"] = cok and not bad_ax
    else:
        res["audit"] = None
        names = theorem_names(os.path.join(COQ, "Props", prop_id + ".v"))
        for n in names:
            run.oblige("theorem " + n, False)
        run.extra["build_error"] = blog[-1500:]
    hok, hlog = harness_build()
    res["harness_ok"], res["harness_log"] = hok, hlog
    if not hok:
        run.extra["harness_build_error"] = hlog[-1500:]
    return res


def driver_build(extract_targets, timeout=1500):
    """Mode B: (re)extract the models (make Extract/*.vo writes ocaml/gen/*.ml) and build the OCaml driver."""
    ok, log = coq_build(list(extract_targets), timeout=timeout)
    if not ok:
        return False, log
    with Lock("dune"):
        rc, out = sh(["dune", "build", "./driver.exe"], cwd=os.path.join(ROOT, "ocaml"), timeout=timeout)
    return rc == 0, log + out


def parse_result(path):
    """result.txt of a mode-B harness module: `key value` lines, `kind <k> <n>`, `DISAGREE ...`, `ORACLE ...`."""
    res = {"kinds": {}, "disagree": [], "oracle": [], "samples": [], "known": []}
    for line in open(path):
        line = line.rstrip("\n")
        if line.startswith("DISAGREE "):
            res["disagree"].append(line[9:])
        elif line.startswith("ORACLE "):
            res["oracle"].append(line[7:])
        elif line.startswith("KNOWN "):
            res["known"].append(line[6:])
        elif line.startswith("SAMPLE "):
            res["samples"].append(line[7:])
        elif line.startswith("kind "):
            _, k, v = line.split(" ", 2)
            res["kinds"][k] = int(v)
        elif " " in line:
            k, v = line.split(" ", 1)
            try:
                res[k] = int(v)
            except ValueError:
                res[k] = v
    return res


def modeb_check(run, prop, harness_name, extract, entry, rule, trusted_extra=(), assumptions=(), allowed_axioms=(),
                harness_args=None, replay=None, nontrivial_key="mutations"):
    """Common body of mode-B checks (extracted model + oracle callbacks)."""
    run.trusted = BASE_TRUSTED + [
        "Coq extraction (Require ExtrOcamlBasic only; no Extract Constant/Inductive of our own) and ocaml/{proto,driver,drv_*}.ml",
        "harness/src/oracle.rs: real merlin / k256 / sha2 / hmac behind the model's uninterpreted functions",
    ] + list(trusted_extra)
    run.assumptions = list(assumptions)
    front = standard_front(run, prop, allowed_axioms=allowed_axioms, clean=(run.tier == "thorough"))
    if not front["harness_ok"]:
        run.violation("harness does not build against /repo", {"theorem_or_correspondence": "harness build",
                      "log": front["harness_log"][-800:]}, found_input=False)
        return None
    dok, dlog = driver_build(extract)
    run.oblige("extraction + OCaml driver build", dok)
    if not dok:
        run.violation("extracted model driver does not build", {"theorem_or_correspondence": "extraction/dune",
                      "log": dlog[-800:]}, found_input=False)
        return None
    args = {"seed": run.seed, "tier": run.tier, "out": run.dir}
    args.update(harness_args or {})
    if replay:
        args["replay"] = replay
    rpath = os.path.join(run.dir, "result.txt")
    if os.path.exists(rpath):
        os.remove(rpath)
    rc, out = harness(harness_name, args)
    if rc != 0 or not os.path.exists(rpath):
        run.oblige("harness run", False)
        run.violation("harness run failed (rc=%s)" % rc, {"theorem_or_correspondence": "harness run", "log": out[-800:]},
                      found_input=False)
        return None
    res = parse_result(rpath)
    run.evaluations = res.get("evaluations", 0)
    run.nontrivial = res.get(nontrivial_key, 0)
    run.rule = rule
    run.samples = res["samples"][:6] or [l.rstrip() for l in open(os.path.join(run.dir, "cases.txt")).readlines()[:3]] \
        if os.path.exists(os.path.join(run.dir, "cases.txt")) or res["samples"] else ["see build/run/%s" % prop]
    run.extra["kinds"] = res["kinds"]
    run.extra["oracle_queries"] = res.get("oracle_queries", 0)
    run.oblige("implementation-only oracle (the property checked directly on the real code)", not res["oracle"])
    run.oblige("correspondence %s: extracted model = implementation on every case" % prop, not res["disagree"])
    for k in res["known"]:
        m = re.match(r"key=(\S+)\s+(.*)", k)
        if m:
            # a reproduced finding: reported as KNOWN-FINDING when listed in known_findings.json, as a VIOLATION otherwise
            run.violation("known finding reproduced: " + m.group(2)[:200], {"finding_key": m.group(1), "entry": entry,
                          "input": m.group(2)})
    if res["oracle"]:
        run.violation("the real code violates the property", {"entry": entry, "input": res["oracle"][0],
                      "count": len(res["oracle"]), "disagreeing": "implementation-only oracle"})
        return res
    broken = []
    if not front["gen_ok"]:
        broken.append("T1 translator: " + front["gen_log"].strip()[-300:])
    if not front["build_ok"]:
        broken.append("proof build of Props/%s.vo: %s" % (prop, front["build_log"][-600:]))
    elif front["audit"] and not front["audit"]["ok"]:
        broken.append("assumption audit: " + "; ".join(front["audit"]["problems"]))
    if res["disagree"]:
        broken.append("correspondence %s: %d disagreements, first: %s" % (prop, len(res["disagree"]), res["disagree"][0][:300]))
    if broken:
        run.violation("; ".join(b[:100] for b in broken), {"theorem_or_correspondence": broken, "entry": entry,
                      "first_disagreement": (res["disagree"] or [None])[0]}, found_input=False)
    return res


BASE_TRUSTED = [
    "Coq 8.16.1 kernel and vm_compute (no native_compute)",
    "tools/gen_model.py (T1 translator) and tools/vlib.py + bin/vcheck (orchestration, output parsing)",
    "harness/ (Rust driver of the real crates, case generators, canonicalisation)",
    "rustc/cargo and the dependency crates of /repo as built offline",
]
